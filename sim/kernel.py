"""Simulator kernel: one integer decides everything.

* `H(*parts)`            stable 63-bit hash of a tuple of printable parts
* `Streams(run_seed)`    named PRNG sub-streams; adding a draw to one stream can
                         never shift another
* `EventLog`             append-only (seq, actor, kind, sha1(payload)) log and
                         its SHA-256 digest
* `canon(obj)`           canonical, hash-seed independent text of a payload
* `Violation`            what a check reports
* `Outcome`              what `execute(case)` returns

Nothing in this module reads a clock or draws from a PRNG in a logging path.
"""
import hashlib
import json
import math
import random

import numpy as np


def H(*parts):
    h = hashlib.sha256()
    for p in parts:
        h.update(repr(p).encode())
        h.update(b'\x00')
    return int.from_bytes(h.digest()[:8], 'big') >> 1


class Streams(object):
    """Named sub-streams of one run seed."""

    def __init__(self, run_seed):
        self.run_seed = int(run_seed)
        self._streams = {}

    def __call__(self, name):
        s = self._streams.get(name)
        if s is None:
            s = random.Random(H(self.run_seed, name))
            self._streams[name] = s
        return s

    def np(self, name):
        return np.random.RandomState(H(self.run_seed, name) % (2**32))


def _canon(obj, out):
    if obj is None or isinstance(obj, (bool, str)):
        out.append(repr(obj))
    elif isinstance(obj, (int, np.integer)):
        out.append('i%d' % int(obj))
    elif isinstance(obj, (float, np.floating)):
        f = float(obj)
        out.append('f' + (f.hex() if math.isfinite(f) else repr(f)))
    elif isinstance(obj, np.ndarray):
        a = np.ascontiguousarray(obj)
        out.append('A%s%s:%s' % (a.dtype.str, a.shape,
                                 hashlib.sha1(a.tobytes()).hexdigest()))
    elif isinstance(obj, (list, tuple)):
        out.append('[')
        for o in obj:
            _canon(o, out)
            out.append(',')
        out.append(']')
    elif isinstance(obj, dict):
        out.append('{')
        for k in sorted(obj, key=repr):
            out.append(repr(k))
            out.append(':')
            _canon(obj[k], out)
            out.append(',')
        out.append('}')
    elif isinstance(obj, bytes):
        out.append('b' + hashlib.sha1(obj).hexdigest())
    else:
        out.append('<%s>' % type(obj).__name__)


def canon(obj):
    out = []
    _canon(obj, out)
    return ''.join(out)


class EventLog(object):
    def __init__(self, keep_text=False):
        self.seq = 0
        self._h = hashlib.sha256()
        self.keep_text = keep_text
        self.lines = []

    def add(self, actor, kind, payload=None):
        p = hashlib.sha1(canon(payload).encode()).hexdigest()[:16]
        line = '%d %s %s %s' % (self.seq, actor, kind, p)
        self._h.update(line.encode())
        self._h.update(b'\n')
        if self.keep_text:
            self.lines.append(line)
        self.seq += 1

    def digest(self):
        return self._h.hexdigest()


class Violation(object):
    """cls: short stable class name used for shrinking and known-finding
    matching; key: finer stable discriminator (e.g. which view / which op
    kind); detail: free text (may contain numbers, never matched)."""

    def __init__(self, cls, key='', detail='', step=None):
        self.cls = cls
        self.key = key
        self.detail = detail
        self.step = step

    def to_json(self):
        return {'class': self.cls, 'key': self.key, 'detail': self.detail,
                'step': self.step}

    @property
    def ident(self):
        return (self.cls, self.key)


class Outcome(object):
    def __init__(self):
        self.violations = []      # list of Violation
        self.digest = ''
        self.signature = ''       # distinctness signature of the run
        self.nontrivial = False
        self.steps = {}           # name -> count (ops, collectives, callbacks)
        self.faults = {}          # fault kind -> times fired
        self.probes = {}          # rare-condition probes -> times hit

    def bump(self, table, key, n=1):
        t = getattr(self, table)
        t[key] = t.get(key, 0) + n

    def to_json(self):
        return {'violations': [v.to_json() for v in self.violations],
                'digest': self.digest, 'signature': self.signature,
                'nontrivial': self.nontrivial, 'steps': self.steps,
                'faults': self.faults, 'probes': self.probes}


class HarnessError(Exception):
    """Raised when the harness itself is wrong (never a VIOLATION)."""


def jdump(obj):
    return json.dumps(obj, sort_keys=True, allow_nan=True)


def jsonable(x):
    """Convert numpy scalars/arrays inside cases into plain JSON values."""
    if isinstance(x, dict):
        return {str(k): jsonable(v) for k, v in x.items()}
    if isinstance(x, (list, tuple)):
        return [jsonable(v) for v in x]
    if isinstance(x, np.ndarray):
        return [jsonable(v) for v in x.tolist()]
    if isinstance(x, np.floating):
        return float(x)
    if isinstance(x, np.integer):
        return int(x)
    if isinstance(x, np.bool_):
        return bool(x)
    return x
