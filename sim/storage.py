"""Simulated storage for C14: writers for every supported container format,
and the seams for directory-listing order and format-class discovery order.

A *physical table* is
    xsec : {'T': [..K], 'P': [..Pa], 'wn': [..cm-1 ascending], 'x': [P][T][wn] cm2}
    cia  : {'T': [..K], 'wn': [..], 'x': [T][wn] m5}     (unified grid)
    kt   : {'T','P','wn','w': [ngauss], 'k': [P][T][wn][g] cm2}
Writers store it in the units each container declares.
"""
import glob as _glob
import os
import pickle

import numpy as np

PRESSURE_UNITS = {'Pa': 1.0, 'bar': 1e5, 'kPa': 1000.0, 'mbar': 100.0,
                  # same letters, other prefix: mPa is not MPa
                  'MPa': 1e6, 'mPa': 1e-3, 'hPa': 100.0, 'uPa': 1e-6,
                  'Torr': 101325.0 / 760.0,
                  # units only the CDS format of astropy knows (the readers
                  # fall back to it)
                  'atm': 101325.0, 'mmHg': 133.322387415}


def distinct_ints(rs, lo, hi, n):
    """n distinct integers in [lo, hi), sorted (cheap rejection sampling)."""
    out = set()
    while len(out) < n:
        out.add(int(rs.randint(lo, hi)))
    return np.array(sorted(out), dtype=float)


def make_xsec_table(rs, nT, nP, nW, wn_lo=300.0, wn_hi=3000.0, logmag=(-40, 0),
                    deep=False):
    T = distinct_ints(rs, 1000, 30000, nT) / 10.0
    # Pa; 'deep' tables reach 1e10 Pa = 1e5 bar (interiors)
    P = 10 ** (distinct_ints(rs, -100, 1000 if deep else 700, nP) / 100.0)
    wn = distinct_ints(rs, int(wn_lo * 100), int(wn_hi * 100), nW) / 100.0
    x = 10 ** rs.uniform(logmag[0], logmag[1], size=(nP, nT, nW))
    return {'T': T.tolist(), 'P': P.tolist(), 'wn': wn.tolist(),
            'x': x.tolist()}


def write_pickle_xsec(path, tab):
    d = {'name': 'x', 'wno': np.array(tab['wn']), 't': np.array(tab['T']),
         'p': np.array(tab['P']) / 1e5, 'xsecarr': np.array(tab['x'])}
    with open(path, 'wb') as f:
        pickle.dump(d, f)


def write_hdf5_xsec(path, tab, molname, unit='bar', variant=0):
    """variant bit 0: mol_name stored as a one-element array (as the ExoMol
    files do) instead of a scalar; bit 1: a DOI dataset is present."""
    import h5py
    # (written beside the target and renamed over it, as another process
    # replacing the file would: a streaming reader may hold the old one open)
    final, path = path, path + '.part'
    with h5py.File(path, 'w') as f:
        f.create_dataset('bin_edges', data=np.array(tab['wn']))
        f.create_dataset('t', data=np.array(tab['T']))
        p = f.create_dataset('p', data=np.array(tab['P']) / PRESSURE_UNITS[unit])
        p.attrs['units'] = unit
        f.create_dataset('xsecarr', data=np.array(tab['x']))
        if variant & 1:
            f.create_dataset('mol_name', data=np.array([molname.encode()]))
        else:
            f.create_dataset('mol_name', data=molname)
        f.create_dataset('key_iso_ll', data=molname)
        if variant & 2:
            f.create_dataset('DOI', data=np.array([b'10.1000/verif.%d'
                                                   % (variant,)]))
    os.replace(path, final)


def write_exotransmit(path, tab, order='asc', seed=0):
    """Exo-Transmit text: line 1 temperatures, line 2 pressures (bar), then for
    each wavelength (metres) a line with the wavelength followed by one line
    per pressure: pressure then one value per temperature (m2).  Wavelength
    blocks in ascending wavelength (what Exo-Transmit ships), descending
    wavelength (= table order) or shuffled: the reader sorts them."""
    T, P, wn = tab['T'], tab['P'], tab['wn']
    x = np.array(tab['x'])
    idx = list(range(len(wn) - 1, -1, -1))           # ascending wavelength
    if order == 'desc':
        idx = idx[::-1]
    elif order == 'shuffle':
        np.random.RandomState(seed % 2**32).shuffle(idx)
    with open(path, 'w') as f:
        f.write(' '.join('%.17e' % t for t in T) + '\n')
        f.write(' '.join('%.17e' % (p / 1e5) for p in P) + '\n')
        for iw in idx:
            f.write('%.17e\n' % (10000.0 * 1e-6 / wn[iw]))
            for ip in range(len(P)):
                f.write('%.17e ' % (P[ip] / 1e5) +
                        ' '.join('%.17e' % (x[ip, it, iw] / 10000.0)
                                 for it in range(len(T))) + '\n')


def make_cia_table(rs, nT, groups):
    """groups: list of (wn array, list of temperature indices present)."""
    T = np.sort(rs.uniform(100, 3000, nT)).round(1)
    while len(set(T)) < nT:
        T = np.sort(rs.uniform(100, 3000, nT)).round(1)
    return T


def write_pickle_cia(path, T, wn, x):
    with open(path, 'wb') as f:
        pickle.dump({'wno': np.array(wn), 't': np.array(T),
                     'xsecarr': np.array(x)}, f)


def write_hitran_cia(path, pair, blocks):
    """blocks: list of (T, wn list, sigma list in m5).  HITRAN layout: header
    'pair wn_start wn_end npoints T max_cia  res comment ref', then npoints
    lines 'wn value' with value in cm5."""
    with open(path, 'w') as f:
        for T, wn, sig in blocks:
            cm5 = [s * 1e10 for s in sig]
            f.write('%20s%10.3f%10.3f%7d%7.1f%10.3E -.999 %s\n'
                    % (pair, wn[0], wn[-1], len(wn), T,
                       max(abs(c) for c in cm5), 'verif'))
            for w, s in zip(wn, cm5):
                f.write('%10.4f %.17e\n' % (w, s))


def write_pickle_ktable(path, tab, name):
    d = {'name': name, 'bin_centers': np.array(tab['wn']),
         'ngauss': len(tab['w']), 't': np.array(tab['T']),
         'p': np.array(tab['P']) / 1e5, 'kcoeff': np.array(tab['k']),
         'weights': np.array(tab['w'])}
    with open(path, 'wb') as f:
        pickle.dump(d, f)


def write_hdf5_ktable(path, tab, unit='bar'):
    import h5py
    with h5py.File(path, 'w') as f:
        f.create_dataset('bin_centers', data=np.array(tab['wn']))
        f.create_dataset('ngauss', data=len(tab['w']))
        f.create_dataset('t', data=np.array(tab['T']))
        p = f.create_dataset('p', data=np.array(tab['P']) / PRESSURE_UNITS[unit])
        p.attrs['units'] = unit
        f.create_dataset('kcoeff', data=np.array(tab['k']))
        f.create_dataset('weights', data=np.array(tab['w']))


# ---- seams -----------------------------------------------------------------

class ListingSeam(object):
    """glob.glob returns the sorted listing permuted by a seeded key."""

    def __init__(self):
        self.salt = 0
        self.calls = 0
        self._orig = None

    def _glob(self, pattern, *a, **kw):
        from sim.kernel import H
        self.calls += 1
        res = sorted(self._orig(pattern, *a, **kw))
        return sorted(res, key=lambda p: H(self.salt, os.path.basename(p)))

    def __enter__(self):
        self._orig = _glob.glob
        _glob.glob = self._glob
        return self

    def __exit__(self, *exc):
        _glob.glob = self._orig


class ClassOrderSeam(object):
    """ClassFactory keeps the format classes in sets (iteration order =
    memory addresses); replace them by lists in a seeded order."""

    def __init__(self):
        self.saved = None

    def __enter__(self):
        from taurex.parameter.classfactory import ClassFactory
        cf = ClassFactory()
        self.cf = cf
        self.saved = (cf._opac_klasses, cf._ktab_klasses)
        self.base_o = sorted(cf._opac_klasses, key=lambda c: c.__name__)
        self.base_k = sorted(cf._ktab_klasses, key=lambda c: c.__name__)
        self.set_order(0)
        return self

    def set_order(self, salt):
        from sim.kernel import H
        self.cf._opac_klasses = sorted(self.base_o,
                                       key=lambda c: H(salt, c.__name__))
        self.cf._ktab_klasses = sorted(self.base_k,
                                       key=lambda c: H(salt, c.__name__))

    def __exit__(self, *exc):
        self.cf._opac_klasses, self.cf._ktab_klasses = self.saved
