"""SimWorld: R simulated MPI ranks in one process.

* one real thread per rank, baton-passed: exactly one thread runs at any time;
  a rank yields only inside a collective; the scheduler (an explicit list of
  priority permutations, part of the replay file) picks which runnable rank
  proceeds next
* every collective argument is pickled and every receiver gets its own
  unpickled copy (the serialisation mpi4py's lower-case API applies)
* allgather: list in rank order; allreduce(SUM): left fold with + in rank order;
  broadcast: root's payload (ndarray: a copy, as Bcast does); barrier
* ranks waiting at different collective kinds, or some finished while others
  wait, is a deadlock (reported, threads are unwound)

Assumptions about mpi4py are recorded in the evidence files.
"""
import pickle
import threading

import numpy as np

_tls = threading.local()
_world = None          # the active SimWorld, if any


class WorldAbort(BaseException):
    """Unwinds rank threads after a deadlock / cap."""


class Deadlock(Exception):
    pass


def current_rank():
    return getattr(_tls, 'rank', 0)


class _FakeComm(object):
    """What taurex.mpi sees as mpi4py's MPI.COMM_WORLD: the lower-case
    (pickling) collectives, the buffer broadcast and the barrier."""

    def __init__(self, world, mpi):
        self._w = world
        self._mpi = mpi

    def Get_rank(self):
        return self._w.get_rank()

    def Get_size(self):
        return self._w.nprocs()

    def allgather(self, data):
        return self._w.allgather(data)

    def allreduce(self, value, op=None):
        if op is not None and op is not self._mpi.SUM:
            raise NotImplementedError('only MPI.SUM is modelled')
        return self._w.allreduce(value, 'sum')

    def bcast(self, obj, root=0):
        return self._w._collective('bcast', obj, root)

    def Bcast(self, buf, root=0):
        # buffer broadcast: the root's array lands in every rank's own buffer
        res = self._w._collective('bcast_nd', np.asarray(buf), root)
        if res is not buf:
            buf[...] = res

    def Allgather(self, sendbuf, recvbuf):
        # buffer collective: every rank's raw memory (in memory order, as the
        # buffer protocol exposes it) lands back to back in recvbuf's memory
        a = np.asarray(sendbuf)
        if not (a.flags.c_contiguous or a.flags.f_contiguous):
            raise ValueError('ndarray is not contiguous')
        parts = self._w.allgather(a.tobytes(order='A'))
        out = np.asarray(recvbuf)
        if not out.flags.c_contiguous:
            raise ValueError('receive buffer is not C-contiguous')
        flat = np.frombuffer(b''.join(parts), dtype=out.dtype)
        out.reshape(-1)[...] = flat

    def Barrier(self):
        return self._w.barrier()

    barrier = Barrier


class _Patches(object):
    """While active: an in-process `mpi4py` whose COMM_WORLD is the simulated
    world, so that the REAL wrappers in taurex/mpi.py (allgather, allreduce,
    broadcast, barrier, only_master_rank) run; only get_rank/nprocs are
    replaced directly, because they are lru_cached per process and the
    simulated ranks are threads of one process."""

    def __init__(self, world):
        self.world = world
        self.saved = []
        self.saved_modules = {}

    def __enter__(self):
        import sys
        import types
        import taurex.mpi as tm
        w = self.world
        mpi = types.ModuleType('mpi4py.MPI')
        mpi.SUM = object()
        mpi.COMM_TYPE_SHARED = object()
        mpi.COMM_WORLD = _FakeComm(w, mpi)
        pkg = types.ModuleType('mpi4py')
        pkg.MPI = mpi
        for name, mod in (('mpi4py', pkg), ('mpi4py.MPI', mpi)):
            self.saved_modules[name] = sys.modules.get(name)
            sys.modules[name] = mod
        repl = {'get_rank': w.get_rank, 'nprocs': w.nprocs,
                'barrier': tm.barrier}
        for name in ('get_rank', 'nprocs'):
            self.saved.append((tm, name, getattr(tm, name)))
            setattr(tm, name, repl[name])
        for modname in ('taurex.output.hdf5', 'taurex.optimizer.multinest',
                        'taurex.taurex'):
            mod = sys.modules.get(modname)
            if mod is None:
                continue
            for name in ('get_rank', 'barrier'):
                if hasattr(mod, name):
                    self.saved.append((mod, name, getattr(mod, name)))
                    setattr(mod, name, repl[name])
        return self

    def __exit__(self, *exc):
        import sys
        for mod, name, old in reversed(self.saved):
            setattr(mod, name, old)
        self.saved = []
        for name, mod in self.saved_modules.items():
            if mod is None:
                sys.modules.pop(name, None)
            else:
                sys.modules[name] = mod
        self.saved_modules = {}


class SimWorld(object):
    def __init__(self, size, perms=None, log=None, cap=2000):
        self.size = size
        self.perms = perms or []
        self.log = log
        self.cap = cap
        self.ncollectives = 0
        self.kinds = {}
        self.arrival_orders = []
        self._cur_arrival = []
        self.bytes_pickled = 0
        self._go = [threading.Semaphore(0) for _ in range(size)]
        self._back = threading.Semaphore(0)
        self._state = ['new'] * size     # new/ready/waiting/done
        self._pending = [None] * size    # (kind, payload bytes, extra)
        self._result = [None] * size
        self._abort = False
        self._step = 0
        self.captured = []               # (kind, root payload) of broadcasts
        self.results = [None] * size
        self.errors = [None] * size
        self.deadlock = None

    # ---- functions installed in taurex.mpi -----------------------------
    def get_rank(self, comm=None):
        return current_rank()

    def nprocs(self):
        return self.size if getattr(_tls, 'in_world', False) else 1

    def _collective(self, kind, value, extra=None):
        if not getattr(_tls, 'in_world', False):
            # outside the world (oracle code in the main thread): identity
            if kind == 'allgather':
                return [value]
            return value
        r = _tls.rank
        if kind == 'bcast_nd':
            data = value        # handled below
        blob = pickle.dumps(value, protocol=pickle.HIGHEST_PROTOCOL)
        self.bytes_pickled += len(blob)
        self._pending[r] = (kind, blob, extra)
        self._state[r] = 'waiting'
        self._back.release()
        self._go[r].acquire()
        if self._abort:
            raise WorldAbort()
        res = self._result[r]
        self._result[r] = None
        return res

    def allgather(self, value):
        return self._collective('allgather', value)

    def allreduce(self, value, op):
        if str(op).lower() != 'sum':
            raise NotImplementedError
        return self._collective('allreduce', value)

    def broadcast(self, array, rank=0):
        if isinstance(array, np.ndarray):
            return self._collective('bcast_nd', array, rank)
        return self._collective('bcast', array, rank)

    def barrier(self, comm=None):
        return self._collective('barrier', None)

    # ---- scheduler -------------------------------------------------------
    def _pick(self, ready):
        if self.perms:
            perm = self.perms[self._step % len(self.perms)]
            pos = {r: i for i, r in enumerate(perm)}
            ready = sorted(ready, key=lambda r: (pos.get(r, len(perm) + r)))
        self._step += 1
        return ready[0]

    def _complete(self):
        """All ranks are waiting at one collective kind: build the results."""
        kinds = set(p[0] for p in self._pending)
        if len(kinds) != 1:
            raise Deadlock('ranks wait at different collectives: %s'
                           % [p[0] for p in self._pending])
        kind = kinds.pop()
        blobs = [p[1] for p in self._pending]
        self.ncollectives += 1
        self.kinds[kind] = self.kinds.get(kind, 0) + 1
        self.arrival_orders.append(tuple(self._cur_arrival))
        self._cur_arrival = []
        if self.log is not None:
            self.log.add('world', kind, [b for b in blobs])
        if kind in ('bcast', 'bcast_nd'):
            self.captured.append(
                (kind, pickle.loads(blobs[self._pending[0][2]])))
        for r in range(self.size):
            if kind == 'allgather':
                res = [pickle.loads(b) for b in blobs]
            elif kind == 'allreduce':
                vals = [pickle.loads(b) for b in blobs]
                acc = vals[0]
                for v in vals[1:]:
                    acc = acc + v
                res = acc
            elif kind in ('bcast', 'bcast_nd'):
                root = self._pending[r][2]
                res = pickle.loads(blobs[root])
            elif kind == 'barrier':
                res = None
            self._result[r] = res
        for r in range(self.size):
            self._pending[r] = None
            self._state[r] = 'ready'

    def run(self, fn):
        """fn(rank) runs on every rank; returns list of results (or raises
        Deadlock).  Exceptions inside ranks are stored in self.errors."""
        global _world
        threads = []

        def body(r):
            _tls.rank = r
            _tls.in_world = True
            self._go[r].acquire()
            try:
                if not self._abort:
                    self.results[r] = fn(r)
            except WorldAbort:
                pass
            except BaseException as e:   # noqa
                import traceback
                self.errors[r] = (e, traceback.format_exc())
            finally:
                self._state[r] = 'done'
                _tls.in_world = False
                self._back.release()

        _world = self
        with _Patches(self):
            for r in range(self.size):
                t = threading.Thread(target=body, args=(r,), daemon=True)
                t.start()
                threads.append(t)
                self._state[r] = 'ready'
            try:
                while True:
                    ready = [r for r in range(self.size)
                             if self._state[r] == 'ready']
                    if not ready:
                        waiting = [r for r in range(self.size)
                                   if self._state[r] == 'waiting']
                        if not waiting:
                            break                      # all done
                        if len(waiting) == self.size:
                            self._complete()
                            if self.ncollectives > self.cap:
                                raise Deadlock('collective cap %d exceeded'
                                               % self.cap)
                            continue
                        done = [r for r in range(self.size)
                                if self._state[r] == 'done']
                        raise Deadlock(
                            'ranks %s finished while ranks %s wait at %s'
                            % (done, waiting,
                               [self._pending[r][0] for r in waiting]))
                    r = self._pick(ready)
                    self._state[r] = 'running'
                    self._go[r].release()
                    self._back.acquire()
                    if self._state[r] == 'waiting':
                        self._cur_arrival.append(r)
            except Deadlock as e:
                self.deadlock = str(e)
            finally:
                # unwind anything still parked
                self._abort = True
                for r in range(self.size):
                    if self._state[r] in ('waiting', 'ready', 'new'):
                        self._go[r].release()
                for t in threads:
                    t.join(timeout=30)
                _world = None
        return self.results
