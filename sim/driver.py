"""Supervisor: fans seeds out to fresh-interpreter workers, aggregates, matches
known findings, shrinks and replay-verifies new violations, writes evidence.

Exit codes: 0 property held on everything explored (known findings printed),
1 VIOLATION, 2 HARNESS-ERROR (never conflated with a violation).
"""
import argparse
import json
import os
import shutil
import subprocess
import sys
import tempfile
import time

HERE = os.path.dirname(os.path.abspath(__file__))
ROOT = os.path.dirname(HERE)
PY = sys.executable
WORKER = os.path.join(HERE, 'worker.py')

sys.path.insert(0, ROOT)
from checks.tiers import TIERS, META  # noqa: E402  (light module)


def scratch_dir():
    base = os.environ.get('VERIF_SCRATCH')
    if base:
        os.makedirs(base, exist_ok=True)
        return tempfile.mkdtemp(prefix='verif-', dir=base)
    for cand in ('/dev/shm', None):
        try:
            return tempfile.mkdtemp(prefix='verif-', dir=cand)
        except Exception:
            continue
    raise RuntimeError('no scratch directory')


def worker_env(hashseed='0', extra=None):
    env = dict(os.environ)
    env['PYTHONHASHSEED'] = hashseed
    env['PYTHONDONTWRITEBYTECODE'] = '1'
    env.setdefault('NUMBA_NUM_THREADS', '1')
    env.setdefault('OMP_NUM_THREADS', '1')
    env.setdefault('OPENBLAS_NUM_THREADS', '1')
    if extra:
        env.update(extra)
    return env


def spawn_batch(prop, tier, base_seed, nworkers, nruns, outdir, tag,
                hashseed='0', extra_env=None):
    procs = []
    for w in range(nworkers):
        out = os.path.join(outdir, '%s-%d.jsonl' % (tag, w))
        err = open(os.path.join(outdir, '%s-%d.err' % (tag, w)), 'w')
        sdir = os.path.join(outdir, '%s-%d.scratch' % (tag, w))
        os.makedirs(sdir, exist_ok=True)
        env = worker_env(hashseed, extra_env)
        env['VERIF_RUN_SCRATCH'] = sdir
        p = subprocess.Popen([PY, WORKER, 'run', prop, tier, str(base_seed),
                              str(w), str(nworkers), str(nruns), out],
                             stdout=err, stderr=subprocess.STDOUT,
                             env=env, cwd=ROOT)
        procs.append((p, out, err))
    return procs


def wait_batch(procs, timeout_s):
    """Returns (records, harness_errors)."""
    deadline = time.time() + timeout_s
    errors = []
    for p, out, err in procs:
        left = max(1.0, deadline - time.time())
        try:
            p.wait(timeout=left)
        except subprocess.TimeoutExpired:
            p.kill()
            p.wait()
            errors.append('worker timeout (%s)' % out)
        err.close()
    records = []
    for p, out, err in procs:
        done = False
        if os.path.exists(out):
            with open(out) as f:
                for line in f:
                    line = line.strip()
                    if not line:
                        continue
                    try:
                        r = json.loads(line)
                    except Exception:
                        errors.append('truncated record in %s' % out)
                        continue
                    if r.get('done'):
                        done = True
                    elif r.get('budget_stop'):
                        pass
                    else:
                        records.append(r)
        if not done or p.returncode != 0:
            tail = ''
            try:
                tail = open(err.name).read()[-3000:]
            except Exception:
                pass
            errors.append('worker %s rc=%s did not finish\n%s'
                          % (out, p.returncode, tail))
    records.sort(key=lambda r: r['i'])
    return records, errors


def load_known(prop):
    path = os.path.join(ROOT, 'known_findings.json')
    if not os.path.exists(path):
        return []
    data = json.load(open(path))
    return [e for e in data.get('findings', []) if e.get('property') == prop]


def match_known(entries, viol):
    """An *open* entry matches a violation iff class equals and key equals (or
    key starts with the entry's key_prefix).  Fixed entries suppress nothing."""
    for e in entries:
        if e.get('status') != 'open':
            continue
        m = e.get('match', {})
        if m.get('class') != viol['class']:
            continue
        if 'key' in m and m['key'] != viol['key']:
            continue
        if 'key_prefix' in m and not viol['key'].startswith(m['key_prefix']):
            continue
        return e
    return None


def run_tool(cmd, casepath, outdir, tag, timeout_s, extra_env=None):
    out = os.path.join(outdir, tag + '.json')
    env = worker_env('0', extra_env)
    sdir = os.path.join(outdir, tag + '.scratch')
    os.makedirs(sdir, exist_ok=True)
    env['VERIF_RUN_SCRATCH'] = sdir
    try:
        r = subprocess.run([PY, WORKER, cmd, casepath, out], env=env, cwd=ROOT,
                           stdout=subprocess.PIPE, stderr=subprocess.STDOUT,
                           timeout=timeout_s)
    except subprocess.TimeoutExpired:
        return None, 'timeout'
    if r.returncode != 0 or not os.path.exists(out):
        return None, r.stdout.decode(errors='replace')[-3000:]
    return json.load(open(out)), None


def tree_rev():
    try:
        rev = subprocess.run(['git', '-C', '/repo', 'rev-parse', 'HEAD'],
                             stdout=subprocess.PIPE, stderr=subprocess.DEVNULL,
                             timeout=20).stdout.decode().strip()
        dirty = subprocess.run(['git', '-C', '/repo', 'status', '--porcelain',
                                '--untracked-files=no'],
                               stdout=subprocess.PIPE,
                               stderr=subprocess.DEVNULL,
                               timeout=60).stdout.decode().strip()
        return rev + ('+dirty' if dirty else '')
    except Exception:
        return 'unknown'


def do_replay(path, outdir):
    case = json.load(open(path))
    prop = case['property']
    res, err = run_tool('replay', path, outdir, 'replay', 600)
    if err or res.get('harness_error'):
        print('HARNESS-ERROR replay failed: %s' % (err or res['harness_error']))
        return 2
    want = case.get('violation')
    idents = [(v['class'], v['key']) for v in res['violations']]
    print('replay property=%s digest=%s violations=%s'
          % (prop, res['digest'], idents))
    if want:
        same = (want['class'], want['key']) in idents
        dig = case.get('digest')
        print('expected violation %s/%s reproduced=%s digest_match=%s'
              % (want['class'], want['key'], same,
                 dig == res['digest'] if dig else 'n/a'))
    known = load_known(prop)
    bad = [v for v in res['violations'] if not match_known(known, v)]
    for v in res['violations']:
        e = match_known(known, v)
        if e:
            print('KNOWN-FINDING: property=%s %s' % (prop, e['description']))
    if bad:
        print('VIOLATION property=%s replay=%s' % (prop, os.path.abspath(path)))
        for v in bad[:5]:
            print('  %s key=%s %s' % (v['class'], v['key'], v['detail']))
        return 1
    return 0


def main():
    ap = argparse.ArgumentParser()
    ap.add_argument('prop')
    ap.add_argument('--tier', default=os.environ.get('VERIF_TIER', 'quick'))
    ap.add_argument('--replay')
    ap.add_argument('--runs', type=int)
    ap.add_argument('--workers', type=int)
    ap.add_argument('--no-evidence', action='store_true')
    ap.add_argument('--no-shrink', action='store_true')
    ap.add_argument('--determinism', type=int, default=None,
                    help='number of seeds re-executed under another '
                         'PYTHONHASHSEED/worker count')
    args = ap.parse_args()
    prop = args.prop.upper()
    tier = args.tier if args.tier in ('quick', 'thorough') else 'quick'

    outdir = scratch_dir()
    try:
        if args.replay:
            return do_replay(args.replay, outdir)
        return run_check(prop, tier, args, outdir)
    finally:
        shutil.rmtree(outdir, ignore_errors=True)


def run_check(prop, tier, args, outdir):
    cfg = dict(TIERS[prop][tier])
    if args.runs:
        cfg['runs'] = args.runs
    if args.workers:
        cfg['workers'] = args.workers
    default_seed = 20260927 if tier == 'quick' else 20260928
    try:
        base_seed = int(os.environ.get('VERIF_SEED', default_seed))
    except ValueError:
        base_seed = default_seed
    nworkers = min(cfg['workers'], os.cpu_count() or 1, cfg['runs'])
    t0 = time.time()
    print('check property=%s tier=%s VERIF_SEED=%d runs=%d workers=%d tree=%s'
          % (prop, tier, base_seed, cfg['runs'], nworkers, tree_rev()))
    sys.stdout.flush()
    extra_env = {'VERIF_RUN_TIMEOUT_S': str(cfg.get('run_timeout', 120))}
    procs = spawn_batch(prop, tier, base_seed, nworkers, cfg['runs'], outdir,
                        'main', '0', extra_env)
    # determinism sub-batch: same seeds, other hash seed, other partition
    ndet = cfg.get('determinism', 0) if args.determinism is None \
        else args.determinism
    ndet = min(ndet, cfg['runs'])
    dprocs = []
    if ndet:
        dw = max(1, min(3, ndet))
        dprocs = spawn_batch(prop, tier, base_seed, dw, ndet, outdir, 'det',
                             '4242', extra_env)
    # regression replays of fixed defects (committed under regress/)
    import glob as _glob
    reg_paths = sorted(_glob.glob(os.path.join(ROOT, 'regress',
                                               prop + '-*.json')))
    reg_proc = None
    if reg_paths:
        lp = os.path.join(outdir, 'regress-list.json')
        json.dump(reg_paths, open(lp, 'w'))
        env = worker_env('0', extra_env)
        sdir = os.path.join(outdir, 'regress.scratch')
        os.makedirs(sdir, exist_ok=True)
        env['VERIF_RUN_SCRATCH'] = sdir
        reg_proc = subprocess.Popen(
            [PY, WORKER, 'replaymany', lp,
             os.path.join(outdir, 'regress-out.json')], env=env, cwd=ROOT,
            stdout=subprocess.PIPE, stderr=subprocess.STDOUT)
    records, errors = wait_batch(procs, cfg['batch_timeout'])
    reg_viol = []
    reg_run = 0
    if reg_proc is not None:
        try:
            so, _ = reg_proc.communicate(timeout=cfg['batch_timeout'])
        except subprocess.TimeoutExpired:
            reg_proc.kill()
            so = b'timeout'
        rp = os.path.join(outdir, 'regress-out.json')
        if reg_proc.returncode != 0 or not os.path.exists(rp):
            errors.append('regression replays failed: %s'
                          % so.decode(errors='replace')[-2000:])
        else:
            rres = json.load(open(rp))
            kn = load_known(prop)
            for path, res in sorted(rres.items()):
                reg_run += 1
                if res.get('harness_error'):
                    errors.append('regression replay %s: %s'
                                  % (path, res['harness_error']))
                    continue
                for v in res['violations']:
                    if not match_known(kn, v):
                        reg_viol.append((path, v))
    drecords, derrors = ([], [])
    if dprocs:
        drecords, derrors = wait_batch(dprocs, cfg['batch_timeout'])
    errors += derrors

    harness = [r for r in records if 'harness_error' in r]
    for r in harness[:3]:
        errors.append('run i=%d seed=%d:\n%s' % (r['i'], r['seed'],
                                                 r['harness_error']))
    good = [r for r in records if 'harness_error' not in r]
    if len(records) != cfg['runs'] and not errors:
        errors.append('expected %d runs, got %d' % (cfg['runs'], len(records)))

    # determinism comparison
    det_checked = 0
    det_mismatch = []
    byidx = {r['i']: r for r in good}
    for d in drecords:
        if 'harness_error' in d:
            continue
        a = byidx.get(d['i'])
        if a is None:
            continue
        det_checked += 1
        if a['digest'] != d['digest']:
            det_mismatch.append(d['i'])
    if det_mismatch:
        errors.append('nondeterministic digests at indices %s'
                      % det_mismatch[:10])

    # aggregate
    known = load_known(prop)
    sigs = set()
    steps, faults, probes = {}, {}, {}
    samples = []
    new_viol = {}     # ident -> first record
    known_hit = {}    # entry key -> (entry, count)
    nviol_runs = 0
    for r in good:
        if r.get('nontrivial'):
            sigs.add(r['signature'])
        for tab, agg in (('steps', steps), ('faults', faults),
                         ('probes', probes)):
            for k, v in r.get(tab, {}).items():
                agg[k] = agg.get(k, 0) + v
        if 'case' in r and len(samples) < 3 and not r['violations']:
            samples.append({'seed': r['seed'], 'digest': r['digest'],
                            'config': r['case'].get('config'),
                            'ops': r['case'].get('ops', [])[:12],
                            'n_ops': len(r['case'].get('ops', []))})
        bad_here = False
        for v in r['violations']:
            e = match_known(known, v)
            if e:
                k = e['key']
                known_hit[k] = (e, known_hit.get(k, (e, 0))[1] + 1)
            else:
                bad_here = True
                ident = (v['class'], v['key'])
                cur = new_viol.get(ident)
                size = len(r['case'].get('ops', []))
                if cur is None or size < cur[2]:
                    new_viol[ident] = (r, v, size)
        nviol_runs += bad_here

    # shrink + replay-verify each new violation class (at most 3)
    replays = []
    os.makedirs(os.path.join(ROOT, 'replays'), exist_ok=True)
    for n, (ident, (r, v, size)) in enumerate(sorted(new_viol.items())):
        if n >= 3:
            break
        case = dict(r['case'])
        case['violation_ident'] = list(ident)
        cpath = os.path.join(outdir, 'case-%d.json' % n)
        json.dump(case, open(cpath, 'w'), allow_nan=True)
        small, digest = None, r['digest']
        final_v = v
        if not args.no_shrink:
            res, err = run_tool('shrink', cpath, outdir, 'shrink-%d' % n,
                                cfg.get('shrink_timeout', 240),
                                {'VERIF_SHRINK_BUDGET_S':
                                 str(cfg.get('shrink_budget', 60))})
            if res and not res['outcome'].get('harness_error'):
                vs = [x for x in res['outcome']['violations']
                      if (x['class'], x['key']) == ident]
                if vs:
                    small = res['case']
                    digest = res['outcome']['digest']
                    final_v = vs[0]
        if small is None:
            small = dict(r['case'])
        small.pop('violation_ident', None)
        small['violation'] = final_v
        small['digest'] = digest
        small['tree_rev'] = tree_rev()
        small['original_seed'] = r['seed']
        small['original_n_ops'] = size
        name = '%s-%d-%s.json' % (prop, r['seed'] % 10**9,
                                  ('%08x' % (abs(hash(ident)) % 2**32)))
        import hashlib
        name = '%s-%d-%s.json' % (
            prop, r['seed'] % 10**9,
            hashlib.sha1(repr(ident).encode()).hexdigest()[:8])
        rpath = os.path.join(ROOT, 'replays', name)
        json.dump(small, open(rpath, 'w'), indent=1, allow_nan=True)
        # verify replay in a fresh interpreter
        res, err = run_tool('replay', rpath, outdir, 'verify-%d' % n, 300)
        ok = bool(res) and not res.get('harness_error') and \
            ident in [(x['class'], x['key']) for x in res['violations']] and \
            res['digest'] == digest
        replays.append((ident, rpath, final_v, ok, len(small.get('ops', []))))

    wall = time.time() - t0
    nruns = len(good)
    evidence = {
        'property_id': prop,
        'tier': tier,
        'seed': base_seed,
        'level': 'exploration',
        'coverage': {
            'evaluations': nruns,
            'distinct_nontrivial': len(sigs),
            'rule': META[prop]['rule'],
            'samples': samples,
            'steps': steps,
            'fault_counts': faults,
            'probes': probes,
            'probe_zero': sorted(k for k in META[prop].get('probes', [])
                                 if probes.get(k, 0) == 0),
            'runs_per_hour': int(nruns / wall * 3600) if wall > 0 else 0,
            'seeds': 'run_seed = H(VERIF_SEED, property, i), i in [0,%d)'
                     % cfg['runs'],
            'simulated_time_s': 0,
            'simulated_time_note': 'no clock is read by the code under test; '
                                   'reach is counted in logical steps',
            'determinism': {'reexecuted_other_hashseed': det_checked,
                            'digest_mismatches': len(det_mismatch)},
            'real_components': META[prop]['real'],
            'stub_components': META[prop]['stub'],
            'regression_replays': {'run': reg_run,
                                   'failing': len(set(p for p, v in reg_viol))},
            'known_findings_hit': {k: c for k, (e, c) in known_hit.items()},
            'workers': nworkers,
            'tree_rev': tree_rev(),
        },
        'assumptions': META[prop]['assumptions'],
        'wall_s': round(wall, 2),
        'violations': len(new_viol) + len(set(p for p, v in reg_viol)),
    }
    if not args.no_evidence:
        os.makedirs(os.path.join(ROOT, 'evidence'), exist_ok=True)
        with open(os.path.join(ROOT, 'evidence', prop + '.json'), 'w') as f:
            json.dump(evidence, f, indent=1, allow_nan=False, default=str)

    print('runs=%d distinct_nontrivial=%d wall=%.1fs runs/h=%d steps=%s'
          % (nruns, len(sigs), wall, evidence['coverage']['runs_per_hour'],
             steps))
    print('faults=%s' % faults)
    print('probes=%s' % probes)
    for k in evidence['coverage']['probe_zero']:
        print('PROBE-ZERO %s' % k)
    print('determinism: %d re-executed, %d mismatches'
          % (det_checked, len(det_mismatch)))
    for k, (e, c) in sorted(known_hit.items()):
        print('KNOWN-FINDING: property=%s %s (hit in %d runs)'
              % (prop, e['description'], c))
    rc = 0
    if errors:
        for e in errors[:5]:
            print('HARNESS-ERROR %s' % e)
        rc = 2
    for ident, rpath, v, ok, nops in replays:
        print('VIOLATION property=%s replay=%s' % (prop, rpath))
        print('  class=%s key=%s minimised_ops=%d replay_verified=%s'
              % (ident[0], ident[1], nops, ok))
        print('  %s' % v['detail'])
        rc = 1
    if new_viol and not replays:
        rc = 1
    print('regression replays of fixed defects: %d run, %d failing'
          % (reg_run, len(set(p for p, v in reg_viol))))
    for path, v in reg_viol:
        print('VIOLATION property=%s replay=%s' % (prop, path))
        print('  (regression of a fixed defect) class=%s key=%s %s'
              % (v['class'], v['key'], v['detail']))
        rc = 1
    if len(new_viol) > len(replays):
        print('(%d further violation classes not minimised: %s)'
              % (len(new_viol) - len(replays),
                 sorted(new_viol)[len(replays):][:10]))
    return rc


if __name__ == '__main__':
    sys.exit(main())
