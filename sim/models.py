"""Harness-side models: toy analytic model/observation (configurable parameter
tables), in-memory opacities/CIA, small real forward models.

Everything here is built from plain JSON config so that a replay file fully
describes the run.
"""
import math

import numpy as np

from taurex.model import ForwardModel
from taurex.spectrum import BaseSpectrum


# --------------------------------------------------------------------------
# Toy analytic model and observation with configurable parameter tables
# --------------------------------------------------------------------------

def _mk_get(name):
    def fget(self):
        return self._values[name]
    return fget


def _mk_set(name):
    def fset(self, value):
        self._values[name] = value
    return fset


def _mk_derived(terms, log_above=None):
    def fget(self):
        v = sum(self._values[t] for t in terms)
        if log_above is not None:
            # a derived quantity that does not exist everywhere (like the
            # log of a difference): NaN where it is undefined
            return math.log10(v - log_above) if v > log_above else float('nan')
        return v
    return fget


class ToyModel(ForwardModel):
    """y(x) = sum_k p_k * x**k  on a fixed native grid; parameters, modes,
    default-fit flags, bounds and derived parameters come from config."""

    def __init__(self, params, derived, ngrid=12, invalid_above=None,
                 rows2d=None):
        super().__init__('ToyModel')
        self._invalid_above = invalid_above
        # light-curve like output: one row per factor (a 2-D model against a
        # 2-D observation, as ObservedLightCurve/LightCurveModel produce)
        self._rows2d = None if not rows2d else np.asarray(rows2d, dtype=float)
        self._values = {}
        self._order = []
        for p in params:
            self._values[p['name']] = p['value']
            self._order.append(p['name'])
            self.add_fittable_param(p['name'], '$%s$' % p['name'],
                                    _mk_get(p['name']), _mk_set(p['name']),
                                    p['mode'], p['fit'], list(p['bounds']))
        for d in derived:
            self.add_derived_param(d['name'], '$%s$' % d['name'],
                                   _mk_derived(d['terms'], d.get('log_above')),
                                   d['compute'])
        self._x = np.linspace(1.0, 2.0, ngrid)
        self.n_model_calls = 0

    def build(self):
        pass

    def initialize_profiles(self):
        pass

    @property
    def nativeWavenumberGrid(self):
        return self._x

    def model(self, wngrid=None, cutoff_grid=True):
        self.n_model_calls += 1
        if self._invalid_above is not None and \
                sum(self._values.values()) > self._invalid_above:
            from taurex.exceptions import InvalidModelException
            raise InvalidModelException('toy: parameter sum above limit')
        x = self._x
        y = np.zeros_like(x)
        for k, n in enumerate(self._order):
            y = y + self._values[n] * x**k
        if self._rows2d is not None:
            y = self._rows2d[:, None] * y[None, :]
        return x, y, None, None

    def write(self, output):
        return output


class ToyObs(BaseSpectrum):
    """Observation on the toy model's native grid (NativeBinner); optional
    observation-side parameters (an additive offset per parameter)."""

    def __init__(self, params, derived, x, y, yerr):
        super().__init__('ToyObs')
        self._values = {}
        for p in params:
            self._values[p['name']] = p['value']
            if p.get('inflate'):
                continue
            self.add_fittable_param(p['name'], '$%s$' % p['name'],
                                    _mk_get(p['name']), _mk_set(p['name']),
                                    p['mode'], p['fit'], list(p['bounds']))
        for d in derived:
            self.add_derived_param(d['name'], '$%s$' % d['name'],
                                   _mk_derived(d['terms'], d.get('log_above')),
                                   d['compute'])
        self._x = np.asarray(x, dtype=float)
        self._y = np.asarray(y, dtype=float)
        self._yerr0 = np.array(yerr, dtype=float)
        self._yerr = np.array(yerr, dtype=float)
        self._inflate = [p['name'] for p in params if p.get('inflate')]
        for p in params:
            if p.get('inflate'):
                # an error-inflation parameter: rescales the error bars (in
                # place, the array object stays the same) and leaves the data
                name = p['name']

                def fset(obs, value, name=name):
                    obs._values[name] = value
                    obs._yerr[...] = obs._yerr0 * value
                self.add_fittable_param(name, '$%s$' % name, _mk_get(name),
                                        fset, p['mode'], p['fit'],
                                        list(p['bounds']))
                self._yerr[...] = self._yerr0 * p['value']

    def create_binner(self):
        from taurex.binning import NativeBinner
        return NativeBinner()

    @property
    def spectrum(self):
        off = sum(v for k, v in self._values.items()
                  if k not in self._inflate) if self._values else 0.0
        return self._y + off

    @property
    def wavenumberGrid(self):
        return self._x

    @property
    def wavelengthGrid(self):
        return 10000 / self._x

    @property
    def errorBar(self):
        return self._yerr

    @property
    def binEdges(self):
        return self._x

    @property
    def binWidths(self):
        return np.gradient(self._x)


def build_toy(cfg):
    """cfg: {'mparams','mderived','oparams','oderived','ngrid'} -> model, obs"""
    model = ToyModel(cfg['mparams'], cfg['mderived'], cfg.get('ngrid', 12),
                     cfg.get('invalid_above'), cfg.get('rows2d'))
    x = model._x
    if 'obs_y' in cfg:
        y = np.asarray(cfg['obs_y'], dtype=float)
        yerr = np.asarray(cfg['obs_err'], dtype=float)
    else:
        y = np.ones_like(x)
        yerr = np.full_like(x, 0.1)
    obs = ToyObs(cfg['oparams'], cfg['oderived'], x, y, yerr)
    return model, obs


# --------------------------------------------------------------------------
# Reference prior maps (independent of taurex.core.priors)
# --------------------------------------------------------------------------

_plugin_prior = None


def ln_uniform_class():
    """A plug-in prior as a user may write one against the public Prior base
    class: uniform in the natural logarithm of the parameter.  Its space is
    its own (neither 'linear' nor log10): sample() returns ln x, prior() maps
    back with exp."""
    global _plugin_prior
    if _plugin_prior is None:
        from taurex.core.priors import Prior

        class LnUniform(Prior):
            def __init__(self, bounds=(0.0, 1.0)):
                super().__init__()
                self._lo, self._hi = min(bounds), max(bounds)

            def sample(self, x):
                return self._lo + x * (self._hi - self._lo)

            def prior(self, value):
                return math.exp(value)

            def params(self):
                return 'ln bounds = [%s, %s]' % (self._lo, self._hi)

            def boundaries(self):
                return self._lo, self._hi
        _plugin_prior = LnUniform
    return _plugin_prior


_plugin_prior2 = None


def cos_uniform_class():
    """A second plug-in prior, this one derived from the built-in Uniform
    (as a user extending it would): uniform in cos(angle), reported in the
    angle itself (degrees, linear space)."""
    global _plugin_prior2
    if _plugin_prior2 is None:
        from taurex.core.priors import Uniform

        class CosUniform(Uniform):
            def sample(self, x):
                lo, hi = self._low_bounds, self._up_bounds
                c = math.cos(math.radians(lo)) + x * (
                    math.cos(math.radians(hi)) - math.cos(math.radians(lo)))
                return math.degrees(math.acos(max(-1.0, min(1.0, c))))
        _plugin_prior2 = CosUniform
    return _plugin_prior2


def make_prior(spec):
    """spec: {'kind': 'Uniform'|'LogUniform'|'Gaussian'|'LogGaussian'|
              'LnUniform' (plug-in), 'args': {...}}  -> taurex prior object"""
    from taurex.core import priors
    kind = spec['kind']
    a = spec['args']
    if kind == 'LnUniform':
        return ln_uniform_class()(bounds=list(a['bounds']))
    if kind == 'CosUniform':
        return cos_uniform_class()(bounds=list(a['bounds']))
    if kind == 'Uniform':
        return priors.Uniform(bounds=list(a['bounds']))
    if kind == 'LogUniform':
        if 'lin_bounds' in a:
            return priors.LogUniform(lin_bounds=list(a['lin_bounds']))
        return priors.LogUniform(bounds=list(a['bounds']))
    if kind == 'Gaussian':
        return priors.Gaussian(mean=a['mean'], std=a['std'])
    if kind == 'LogGaussian':
        if 'lin_mean' in a:
            return priors.LogGaussian(lin_mean=a['lin_mean'],
                                      lin_std=a['lin_std'])
        return priors.LogGaussian(mean=a['mean'], std=a['std'])
    raise ValueError(kind)


def ref_prior_is_log(spec):
    """'ln' for the plug-in prior (truthy: not the linear space)."""
    if spec['kind'] == 'LnUniform':
        return 'ln'
    return spec['kind'] in ('LogUniform', 'LogGaussian')


def ref_prior_bounds(spec):
    """(lo, hi) of the prior in its own space, for bounded priors; for
    Gaussians the 10%/90% points."""
    from statistics import NormalDist
    kind = spec['kind']
    a = spec['args']
    if kind in ('Uniform', 'LogUniform', 'LnUniform', 'CosUniform'):
        if 'lin_bounds' in a:
            b = [math.log10(x) for x in a['lin_bounds']]
        else:
            b = list(a['bounds'])
        return min(b), max(b)
    if 'lin_mean' in a:
        mean, std = math.log10(a['lin_mean']), math.log10(a['lin_std'])
    else:
        mean, std = a['mean'], a['std']
    nd = NormalDist(mean, std)
    return nd.inv_cdf(0.1), nd.inv_cdf(0.9)


def ref_prior_sample(spec, u):
    """Inverse CDF in the prior's own space."""
    from statistics import NormalDist
    kind = spec['kind']
    a = spec['args']
    if kind == 'CosUniform':
        lo, hi = ref_prior_bounds(spec)
        c = math.cos(math.radians(lo)) + u * (
            math.cos(math.radians(hi)) - math.cos(math.radians(lo)))
        return math.degrees(math.acos(max(-1.0, min(1.0, c))))
    if kind in ('Uniform', 'LogUniform', 'LnUniform'):
        lo, hi = ref_prior_bounds(spec)
        return lo + u * (hi - lo)
    if 'lin_mean' in a:
        mean, std = math.log10(a['lin_mean']), math.log10(a['lin_std'])
    else:
        mean, std = a['mean'], a['std']
    return NormalDist(mean, std).inv_cdf(u)


def ref_to_linear(is_log, v):
    if is_log == 'ln':
        return math.exp(v)
    return 10 ** v if is_log else v


def default_prior_spec(mode, bounds):
    if mode == 'log':
        return {'kind': 'LogUniform', 'args': {'lin_bounds': list(bounds)}}
    return {'kind': 'Uniform', 'args': {'bounds': list(bounds)}}
