"""In-process doubles for the external samplers.

The doubles only expose the *entry points* the wrappers call and hand control to
the check's plan object (`set_plan`), which plays the sampler's side of the
protocol: C06 drives the callbacks from an explicit session; C09 returns a
result object or writes chain files in the sampler's layout.

    nestle.sample(loglike, prior, ndim, method=, npoints=, dlogz=, callback=)
    pymultinest.run(LogLikelihood=, Prior=, n_dims=, outputfiles_basename=, ...)
    pymultinest.Analyzer(n_params=, outputfiles_basename=).get_stats()
    pypolychord.run_polychord(loglike, ndim, nderived, settings, prior)
    pypolychord.settings.PolyChordSettings(ndim, nderived)
    pypolychord.priors.UniformPrior
"""
import sys
import types

_plan = None
_saved_nestle_sample = None


class SessionEnd(Exception):
    """Raised by a plan to abort the fit once the session is over."""


def set_plan(plan):
    global _plan
    _plan = plan


class ItemOnly(object):
    """What MultiNest hands to Python callbacks: a ctypes double pointer --
    item get/set only, no len(), no iteration protocol beyond indexing."""

    def __init__(self, values):
        self._v = [float(x) for x in values]
        self.writes = 0

    def __getitem__(self, i):
        if not isinstance(i, int):
            raise TypeError('pointer index must be int')
        if i < 0 or i >= len(self._v):
            raise IndexError(i)     # a real pointer would read garbage
        return self._v[i]

    def __setitem__(self, i, x):
        if not isinstance(i, int):
            raise TypeError('pointer index must be int')
        self._v[i] = float(x)
        self.writes += 1

    def values(self):
        return list(self._v)


# ---- nestle ----------------------------------------------------------------

def _nestle_sample(loglikelihood, prior_transform, ndim, **kwargs):
    return _plan.on_run('nestle', {'loglike': loglikelihood,
                                   'prior': prior_transform,
                                   'ndim': ndim}, kwargs)


# ---- pymultinest -----------------------------------------------------------

def _pmn_run(LogLikelihood=None, Prior=None, n_dims=None, **kwargs):
    return _plan.on_run('multinest', {'loglike': LogLikelihood, 'prior': Prior,
                                      'ndim': n_dims}, kwargs)


class _PmnAnalyzer(object):
    def __init__(self, n_params, outputfiles_basename='chains/1-'):
        self.n_params = n_params
        self.base = outputfiles_basename

    def get_stats(self):
        return _plan.analyzer_stats(self.n_params, self.base)


# ---- pypolychord -----------------------------------------------------------

class _PolyChordSettings(object):
    def __init__(self, ndim, nderived, **kwargs):
        self.nDims = ndim
        self.nDerived = nderived
        self.nlive = ndim * 25
        self.num_repeats = ndim * 5
        self.do_clustering = True
        self.precision_criterion = 0.001
        self.logzero = -1e30
        self.read_resume = True
        self.base_dir = 'chains'
        self.file_root = 'test'
        for k, v in kwargs.items():
            setattr(self, k, v)


def _run_polychord(loglikelihood, nDims, nDerived, settings, prior=None,
                   dumper=None):
    return _plan.on_run('polychord', {'loglike': loglikelihood, 'prior': prior,
                                      'ndim': nDims, 'nderived': nDerived,
                                      'settings': settings}, {})


class _UniformPrior(object):
    def __init__(self, a, b):
        self.a, self.b = a, b

    def __call__(self, x):
        return self.a + (self.b - self.a) * x


def install():
    """Put the doubles in place (idempotent).  Must run before
    taurex.optimizer.multinest / polychord are imported."""
    global _saved_nestle_sample
    import nestle
    if _saved_nestle_sample is None:
        _saved_nestle_sample = nestle.sample
    pmn = types.ModuleType('pymultinest')
    pmn.run = _pmn_run
    pmn.Analyzer = _PmnAnalyzer
    pmn.__verif_double__ = True
    sys.modules['pymultinest'] = pmn
    pc = types.ModuleType('pypolychord')
    pc.run_polychord = _run_polychord
    pc.__verif_double__ = True
    pcs = types.ModuleType('pypolychord.settings')
    pcs.PolyChordSettings = _PolyChordSettings
    pcp = types.ModuleType('pypolychord.priors')
    pcp.UniformPrior = _UniformPrior
    pc.settings = pcs
    pc.priors = pcp
    sys.modules['pypolychord'] = pc
    sys.modules['pypolychord.settings'] = pcs
    sys.modules['pypolychord.priors'] = pcp


def use_nestle_double(on):
    import nestle
    nestle.sample = _nestle_sample if on else _saved_nestle_sample


def optimizer_classes():
    install()
    from taurex.optimizer.nestle import NestleOptimizer
    from taurex.optimizer.multinest import MultiNestOptimizer
    from taurex.optimizer.polychord import PolyChordOptimizer
    return {'nestle': NestleOptimizer, 'multinest': MultiNestOptimizer,
            'polychord': PolyChordOptimizer}
