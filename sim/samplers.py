"""In-process doubles for the external samplers.

The doubles only expose the *entry points* the wrappers call and hand control to
the check's plan object (`set_plan`), which plays the sampler's side of the
protocol: C06 drives the callbacks from an explicit session; C09 returns a
result object or writes chain files in the sampler's layout.

    nestle.sample(loglike, prior, ndim, method=, npoints=, dlogz=, callback=)
    pymultinest.run(LogLikelihood=, Prior=, n_dims=, outputfiles_basename=, ...)
    pymultinest.Analyzer(n_params=, outputfiles_basename=).get_stats()
    pypolychord.run_polychord(loglike, ndim, nderived, settings, prior)
    pypolychord.settings.PolyChordSettings(ndim, nderived)
    pypolychord.priors.UniformPrior
"""
import sys
import types

_plan = None
_saved_nestle_sample = None


class SessionEnd(Exception):
    """Raised by a plan to abort the fit once the session is over."""


def set_plan(plan):
    global _plan
    _plan = plan


class ItemOnly(object):
    """What MultiNest hands to Python callbacks: a ctypes double pointer --
    item get/set only, no len(), no iteration protocol beyond indexing."""

    def __init__(self, values):
        self._v = [float(x) for x in values]
        self.writes = 0

    def __getitem__(self, i):
        if not isinstance(i, int):
            raise TypeError('pointer index must be int')
        if i < 0 or i >= len(self._v):
            raise IndexError(i)     # a real pointer would read garbage
        return self._v[i]

    def __setitem__(self, i, x):
        if not isinstance(i, int):
            raise TypeError('pointer index must be int')
        self._v[i] = float(x)
        self.writes += 1

    def values(self):
        return list(self._v)


# ---- nestle ----------------------------------------------------------------

def _nestle_sample(loglikelihood, prior_transform, ndim, **kwargs):
    return _plan.on_run('nestle', {'loglike': loglikelihood,
                                   'prior': prior_transform,
                                   'ndim': ndim}, kwargs)


# ---- pymultinest -----------------------------------------------------------

def _pmn_run(LogLikelihood=None, Prior=None, n_dims=None, **kwargs):
    return _plan.on_run('multinest', {'loglike': LogLikelihood, 'prior': Prior,
                                      'ndim': n_dims}, kwargs)


class _PmnAnalyzer(object):
    def __init__(self, n_params, outputfiles_basename='chains/1-'):
        self.n_params = n_params
        self.base = outputfiles_basename

    def get_stats(self):
        return _plan.analyzer_stats(self.n_params, self.base)


# ---- pypolychord -----------------------------------------------------------

class _PolyChordSettings(object):
    def __init__(self, ndim, nderived, **kwargs):
        self.nDims = ndim
        self.nDerived = nderived
        self.nlive = ndim * 25
        self.num_repeats = ndim * 5
        self.do_clustering = True
        self.precision_criterion = 0.001
        self.logzero = -1e30
        self.read_resume = True
        self.base_dir = 'chains'
        self.file_root = 'test'
        for k, v in kwargs.items():
            setattr(self, k, v)


def _run_polychord(loglikelihood, nDims, nDerived, settings, prior=None,
                   dumper=None):
    return _plan.on_run('polychord', {'loglike': loglikelihood, 'prior': prior,
                                      'ndim': nDims, 'nderived': nDerived,
                                      'settings': settings}, {})


class _UniformPrior(object):
    def __init__(self, a, b):
        self.a, self.b = a, b

    def __call__(self, x):
        return self.a + (self.b - self.a) * x


def install():
    """Put the doubles in place (idempotent).  Must run before
    taurex.optimizer.multinest / polychord are imported."""
    global _saved_nestle_sample
    import nestle
    if _saved_nestle_sample is None:
        _saved_nestle_sample = nestle.sample
    pmn = types.ModuleType('pymultinest')
    pmn.run = _pmn_run
    pmn.Analyzer = _PmnAnalyzer
    pmn.__verif_double__ = True
    sys.modules['pymultinest'] = pmn
    pc = types.ModuleType('pypolychord')
    pc.run_polychord = _run_polychord
    pc.__verif_double__ = True
    pcs = types.ModuleType('pypolychord.settings')
    pcs.PolyChordSettings = _PolyChordSettings
    pcp = types.ModuleType('pypolychord.priors')
    pcp.UniformPrior = _UniformPrior
    pc.settings = pcs
    pc.priors = pcp
    sys.modules['pypolychord'] = pc
    sys.modules['pypolychord.settings'] = pcs
    sys.modules['pypolychord.priors'] = pcp


def use_nestle_double(on):
    import nestle
    nestle.sample = _nestle_sample if on else _saved_nestle_sample


class RealNestleBudget(Exception):
    """The real nestle library exceeded the simulation's step budget inside
    one of its own unbounded loops (harness condition, never a violation)."""


_saved_sample_ellipsoids = None


import numpy as np
last_real_result = {}


def bound_real_nestle(maxcall):
    """Harness seam: the real nestle.sample with a cap on likelihood calls
    (step cap of the simulation; nestle returns a regular Result).  nestle
    checks maxcall only between iterations; its inner loops (new_point: until
    a likelihood above the threshold is drawn; propose_point: until a point
    inside the unit cube is drawn) are unbounded, so both are counted here and
    abandoned deterministically."""
    import nestle
    global _saved_sample_ellipsoids
    real = _saved_nestle_sample
    if _saved_sample_ellipsoids is None:
        _saved_sample_ellipsoids = nestle.sample_ellipsoids
    real_se = _saved_sample_ellipsoids

    def bounded(loglikelihood, prior_transform, ndim, **kw):
        kw.setdefault('maxcall', maxcall)
        kw['callback'] = None
        count = {'like': 0, 'prop': 0}

        def counted_like(x):
            count['like'] += 1
            if count['like'] > 3 * maxcall:
                raise RealNestleBudget('likelihood calls')
            return loglikelihood(x)

        def counted_se(ells, rstate=None):
            count['prop'] += 1
            if count['prop'] > 60 * maxcall:
                raise RealNestleBudget('proposals')
            return real_se(ells, rstate=rstate)
        nestle.sample_ellipsoids = counted_se
        try:
            res = real(counted_like, prior_transform, ndim, **kw)
            # what the sampler handed back, copied before the wrapper sees it
            last_real_result['samples'] = np.array(res.samples, copy=True)
            last_real_result['weights'] = np.array(res.weights, copy=True)
            return res
        finally:
            nestle.sample_ellipsoids = real_se
    nestle.sample = bounded


def optimizer_classes():
    install()
    from taurex.optimizer.nestle import NestleOptimizer
    from taurex.optimizer.multinest import MultiNestOptimizer
    from taurex.optimizer.polychord import PolyChordOptimizer
    return {'nestle': NestleOptimizer, 'multinest': MultiNestOptimizer,
            'polychord': PolyChordOptimizer}


# ---------------------------------------------------------------------------
# Result plans for C09: the sampler's output *as written* is the ground truth
# ---------------------------------------------------------------------------

def _fmt(x):
    return '%28.18E' % x


def write_multinest_files(base, modes, multimodal, logz=-12.5, logzerr=0.1,
                          leading_blank=True):
    """modes: list of dicts {samples: [[...]], weights: [...], m2logl: [...],
    map: [...], ml: [...]}.  Writes <base>.txt, <base>post_separate.dat,
    <base>stats.dat in MultiNest's text layout (weight, -2logL, parameters)."""
    import numpy as np
    allrows = []
    for md in modes:
        for s, w, l in zip(md['samples'], md['weights'], md['m2logl']):
            allrows.append([w, l] + list(s))
    with open(base + '.txt', 'w') as f:
        for r in allrows:
            f.write(''.join(_fmt(x) for x in r) + '\n')
    with open(base + 'post_separate.dat', 'w') as f:
        for k, md in enumerate(modes):
            if k > 0 or leading_blank:
                f.write('\n\n')
            for s, w, l in zip(md['samples'], md['weights'], md['m2logl']):
                f.write(''.join(_fmt(x) for x in [w, l] + list(s)) + '\n')
    with open(base + 'stats.dat', 'w') as f:
        f.write('Nested Sampling Global Log-Evidence           :%s  +/-%s\n'
                % (_fmt(logz), _fmt(logzerr)))
        if multimodal:
            f.write('Nested Importance Sampling Global Log-Evidence:%s  +/-%s\n'
                    % (_fmt(logz), _fmt(logzerr)))
            f.write('\nTotal Modes Found:%11d\n' % len(modes))
            for k, md in enumerate(modes):
                f.write('\n\nMode%4d\n' % (k + 1))
                f.write('Strictly Local Log-Evidence%s  +/-%s\n'
                        % (_fmt(logz), _fmt(logzerr)))
                f.write('Local Log-Evidence%s  +/-%s\n'
                        % (_fmt(logz), _fmt(logzerr)))
                _stats_tables(f, md, titles=True)
        else:
            # layout accepted by the wrapper's own non-multimodal parser
            # (reconstructed from that parser: low fidelity, see DESIGN)
            f.write('\n')
            _stats_tables(f, modes[0], titles=False)


def _stats_tables(f, md, titles):
    import numpy as np
    s = np.array(md['samples'], dtype=float)
    w = np.array(md['weights'], dtype=float)
    mean = (s * w[:, None]).sum(0) / w.sum()
    sig = np.sqrt(((s - mean) ** 2 * w[:, None]).sum(0) / w.sum())
    f.write('\nDim No.       Mean        Sigma\n' if titles else
            'Dim No.       Mean        Sigma\n')
    for i in range(s.shape[1]):
        f.write('%4d%s%s\n' % (i + 1, _fmt(mean[i]), _fmt(sig[i])))
    f.write('\n')
    if titles:
        f.write('Maximum Likelihood Parameters\n')
    f.write('Dim No.        Parameter\n')
    for i in range(s.shape[1]):
        f.write('%4d%s\n' % (i + 1, _fmt(md['ml'][i])))
    f.write('\n')
    if titles:
        f.write('MAP Parameters\n')
    f.write('Dim No.        Parameter\n')
    for i in range(s.shape[1]):
        f.write('%4d%s\n' % (i + 1, _fmt(md['map'][i])))


def multinest_stats(modes, multimodal, logz=-12.5, logzerr=0.1):
    """What pymultinest.Analyzer.get_stats() reports: per-mode tables when
    MultiNest ran multimodal, no modes otherwise (the wrapper then parses
    stats.dat itself)."""
    import numpy as np
    out = {'global evidence': logz, 'global evidence error': logzerr,
           'nested sampling global log-evidence': logz,
           'nested sampling global log-evidence error': logzerr,
           'modes': [], 'marginals': []}
    if not multimodal:
        return out
    for k, md in enumerate(modes):
        s = np.array(md['samples'], dtype=float)
        w = np.array(md['weights'], dtype=float)
        mean = (s * w[:, None]).sum(0) / w.sum()
        sig = np.sqrt(((s - mean) ** 2 * w[:, None]).sum(0) / w.sum())
        out['modes'].append({
            'index': k,
            'strictly local log-evidence': logz,
            'strictly local log-evidence error': logzerr,
            'local log-evidence': logz, 'local log-evidence error': logzerr,
            'mean': mean.tolist(), 'sigma': sig.tolist(),
            'maximum': list(md['ml']),
            'maximum a posterior': list(md['map'])})
    return out


def write_polychord_files(basedir, modes, logz=-12.5, logzerr=0.1,
                          cluster=True):
    """1-.txt, 1-.stats, clusters/1-_k.txt.  The .stats layout is reconstructed
    from the wrapper's own line arithmetic (lowest-fidelity double).  Without
    clustering only the main chain file and a one-row .stats are written and
    the clusters directory is left as it was found."""
    import os
    os.makedirs(os.path.join(basedir, 'clusters'), exist_ok=True)
    if cluster:
        for fn in os.listdir(os.path.join(basedir, 'clusters')):
            os.remove(os.path.join(basedir, 'clusters', fn))
    with open(os.path.join(basedir, '1-.txt'), 'w') as f:
        for md in modes:
            for s, w, l in zip(md['samples'], md['weights'], md['m2logl']):
                f.write(''.join(_fmt(x) for x in [w, l] + list(s) + [0.0])
                        + '\n')
    for k, md in enumerate(modes if cluster else []):
        with open(os.path.join(basedir, 'clusters', '1-_%d.txt' % (k + 1)),
                  'w') as f:
            for s, w, l in zip(md['samples'], md['weights'], md['m2logl']):
                f.write(''.join(_fmt(x) for x in [w, l] + list(s) + [0.0])
                        + '\n')
    with open(os.path.join(basedir, '1-.stats'), 'w') as f:
        lines = ['Evidence estimates:', '===================',
                 '  - The evidence Z is a log-normally distributed, with '
                 'location and scale parameters mu and sigma.',
                 '  - We denote this as log(Z) = mu +/- sigma.', '',
                 'Global evidence:', '----------------', '',
                 'log(Z)       = %s +/- %s' % (_fmt(logz), _fmt(logzerr)),
                 '', '', 'Local evidences:', '----------------', '']
        for k in range(len(modes)):
            lines.append('log(Z_ %d)  = %s +/- %s'
                         % (k + 1, _fmt(logz), _fmt(logzerr)))
        f.write('\n'.join(lines) + '\n')
