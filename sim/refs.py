"""Small reference oracles, written independently of the code under test."""
import math


def native_bins(wn):
    """Native bin of point i: centred on wn[i], width = distance between the
    mid-points to its neighbours (edge points: the distance to the single
    neighbour)."""
    n = len(wn)
    edges = [wn[0] - (wn[1] - wn[0]) / 2.0]
    for i in range(n - 1):
        edges.append(0.5 * (wn[i] + wn[i + 1]))
    edges.append(wn[-1] + (wn[-1] - wn[-2]) / 2.0)
    out = []
    for i in range(n):
        w = abs(edges[i + 1] - edges[i])
        out.append((wn[i] - w / 2.0, wn[i] + w / 2.0))
    return out


def ref_bin(native_wn, native_y, centres, widths):
    """Overlap-weighted mean of native values in each target bin (double loop).
    native_wn ascending.  Returns list (None where a bin overlaps nothing)."""
    nb = native_bins(list(native_wn))
    out = []
    for c, w in zip(centres, widths):
        lo, hi = c - w / 2.0, c + w / 2.0
        sw = 0.0
        sy = 0.0
        for (a, b), y in zip(nb, native_y):
            ov = min(hi, b) - max(lo, a)
            if ov > 0:
                sw += ov
                sy += ov * y
        out.append(sy / sw if sw > 0 else None)
    return out


def obs_rows_sorted(rows):
    """Rows (wl, y, err[, wlwidth]) -> ascending wavenumber lists
    (wn, y, err, wnwidth); width from the wavelength width converted at the bin
    edges, or from neighbouring mid-points when absent."""
    rs = sorted(rows, key=lambda r: -r[0])          # wl descending
    wn = [10000.0 / r[0] for r in rs]
    y = [r[1] for r in rs]
    e = [r[2] for r in rs]
    if len(rs[0]) >= 4:
        ww = []
        for r in rs:
            lo, hi = r[0] - r[3] / 2.0, r[0] + r[3] / 2.0
            ww.append(abs(10000.0 / lo - 10000.0 / hi))
    else:
        ww = None
    return wn, y, e, ww


def gaussian_loglike(y, model, sigma):
    s = 0.0
    for a, m, sg in zip(y, model, sigma):
        s += -math.log(sg * math.sqrt(2 * math.pi)) - 0.5 * ((a - m) / sg) ** 2
    return s
