"""Worker entry point: one fresh interpreter per worker.

    worker.py run     <prop> <tier> <base_seed> <idx> <nworkers> <nruns> <out.jsonl>
    worker.py replay  <case.json> <out.json>
    worker.py shrink  <case.json> <out.json>

Imports the check module `checks.<prop>`; the tree under test is /repo's working
tree (editable install) or $VERIF_REPO when set (mutation self-tests).
"""
import faulthandler
import json
import os
import sys
import time
import traceback

HERE = os.path.dirname(os.path.abspath(__file__))
ROOT = os.path.dirname(HERE)


def _setup_path():
    repo = os.environ.get('VERIF_REPO')
    if repo:
        sys.path.insert(0, repo)
    if ROOT not in sys.path:
        sys.path.insert(1 if repo else 0, ROOT)
    os.environ.setdefault('NUMBA_DISABLE_PERFORMANCE_WARNINGS', '1')
    os.environ.setdefault('NUMBA_NUM_THREADS', '1')
    os.environ.setdefault('OMP_NUM_THREADS', '1')
    os.environ.setdefault('OPENBLAS_NUM_THREADS', '1')
    os.environ.setdefault('MKL_NUM_THREADS', '1')
    import warnings
    warnings.filterwarnings('ignore')


def load_check(prop):
    import importlib
    mod = importlib.import_module('checks.' + prop.lower())
    if os.environ.get('VERIF_REPO'):
        import taurex
        want = os.path.realpath(os.environ['VERIF_REPO'])
        got = os.path.realpath(os.path.dirname(os.path.dirname(taurex.__file__)))
        if want != got:
            raise RuntimeError('VERIF_REPO=%s but taurex imported from %s'
                               % (want, got))
    return mod


def run_case(mod, case, keep_text=False):
    """Execute one case; harness exceptions are reported apart."""
    from sim.kernel import Outcome
    try:
        out = mod.execute(case, keep_text=keep_text) if keep_text \
            else mod.execute(case)
        return out, None
    except Exception:
        return None, traceback.format_exc()


def cmd_run(argv):
    prop, tier, base_seed, idx, nworkers, nruns, outpath = argv
    base_seed = int(base_seed)
    idx = int(idx)
    nworkers = int(nworkers)
    nruns = int(nruns)
    budget = float(os.environ.get('VERIF_WORKER_BUDGET_S', '0') or 0)
    from sim.kernel import H, jsonable
    mod = load_check(prop)
    if hasattr(mod, 'warmup'):
        mod.warmup()
    t0 = time.time()
    nsamples = 0
    with open(outpath, 'w') as f:
        i = idx
        while i < nruns:
            if budget and time.time() - t0 > budget:
                f.write(json.dumps({'i': i, 'budget_stop': True}) + '\n')
                break
            run_seed = H(base_seed, prop, i)
            faulthandler.dump_traceback_later(
                float(os.environ.get('VERIF_RUN_TIMEOUT_S', '120')), exit=True)
            try:
                case = mod.generate(run_seed, tier)
                case['property'] = prop
                case['seed'] = run_seed
                case['index'] = i
                case = jsonable(case)
            except Exception:
                f.write(json.dumps({'i': i, 'seed': run_seed,
                                    'harness_error': traceback.format_exc()})
                        + '\n')
                i += nworkers
                continue
            out, err = run_case(mod, case)
            faulthandler.cancel_dump_traceback_later()
            rec = {'i': i, 'seed': run_seed}
            if err is not None:
                rec['harness_error'] = err
                rec['case'] = case
            else:
                rec.update(out.to_json())
                if out.violations or nsamples < 2:
                    rec['case'] = case
                    nsamples += 1
            f.write(json.dumps(rec, allow_nan=True) + '\n')
            f.flush()
            i += nworkers
        f.write(json.dumps({'done': True, 'idx': idx,
                            'wall': time.time() - t0}) + '\n')


def cmd_replay(argv):
    casepath, outpath = argv
    case = json.load(open(casepath))
    mod = load_check(case['property'])
    if hasattr(mod, 'warmup'):
        mod.warmup()
    out, err = run_case(mod, case)
    res = {'harness_error': err} if err else out.to_json()
    json.dump(res, open(outpath, 'w'), allow_nan=True)


def cmd_replaymany(argv):
    listpath, outpath = argv
    paths = json.load(open(listpath))
    res = {}
    mod = None
    for path in paths:
        case = json.load(open(path))
        if mod is None:
            mod = load_check(case['property'])
            if hasattr(mod, 'warmup'):
                mod.warmup()
        out, err = run_case(mod, case)
        res[path] = {'harness_error': err} if err else out.to_json()
    json.dump(res, open(outpath, 'w'), allow_nan=True)


def cmd_shrink(argv):
    casepath, outpath = argv
    case = json.load(open(casepath))
    want = tuple(case['violation_ident'])
    mod = load_check(case['property'])
    if hasattr(mod, 'warmup'):
        mod.warmup()
    from sim.shrink import shrink
    small, nexec = shrink(mod, case, want,
                          budget_s=float(os.environ.get('VERIF_SHRINK_BUDGET_S',
                                                        '60')))
    out, err = run_case(mod, small)
    res = {'case': small, 'executions': nexec,
           'outcome': ({'harness_error': err} if err else out.to_json())}
    json.dump(res, open(outpath, 'w'), allow_nan=True)


def main():
    _setup_path()
    faulthandler.enable()
    cmd = sys.argv[1]
    argv = sys.argv[2:]
    if cmd == 'run':
        cmd_run(argv)
    elif cmd == 'replay':
        cmd_replay(argv)
    elif cmd == 'replaymany':
        cmd_replaymany(argv)
    elif cmd == 'shrink':
        cmd_shrink(argv)
    else:
        raise SystemExit('unknown command')


if __name__ == '__main__':
    main()
