"""Retrieval scenarios shared by C18 / C06 / C09: a small real (or toy) model,
an observation whose bins lie in the well-conditioned interior of the native
grid, and a fitted-parameter selection with priors.  Pure JSON in, objects out.
"""
import math

import numpy as np

from sim import models as M
from sim import realmodel as R

RJUP = 69911000.0
RSOL = 695700000.0


def native_grid(mcfg):
    lo, hi = mcfg['opac']['wn']
    return np.logspace(np.log10(lo), np.log10(hi), mcfg['opac']['ngrid'])


def gen_obs(rng, mcfg, four_col=None):
    """Observation rows (wavelength um, value, error[, width um]) with every
    bin strictly inside the native range and >= 2 native spacings wide."""
    wn = native_grid(mcfg)
    n = len(wn)
    # bin edges on native indices (in index space, fractional), interior only
    nb = rng.randint(2, max(2, min(7, (n - 3) // 3)))
    lo_i, hi_i = 1.2, n - 2.2
    span = hi_i - lo_i
    width = span / nb
    rows = []
    depth = (mcfg['planet']['radius'] * RJUP /
             (mcfg['star']['radius'] * RSOL)) ** 2
    if mcfg.get('family', 'transmission') != 'transmission':
        depth = 1e-3
    four = rng.random() < 0.7 if four_col is None else four_col
    logwn = np.log10(wn)
    for b in range(nb):
        a = lo_i + b * width + rng.uniform(0, 0.15) * width
        c = lo_i + (b + 1) * width - rng.uniform(0, 0.15) * width
        if c - a < 2.0:
            a, c = lo_i + b * width, lo_i + (b + 1) * width
        wa = 10 ** np.interp(a, np.arange(n), logwn)
        wc = 10 ** np.interp(c, np.arange(n), logwn)
        wl_lo, wl_hi = 10000 / wc, 10000 / wa
        wl = 0.5 * (wl_lo + wl_hi)
        err = depth * 10 ** rng.uniform(-4, -1.5)
        val = depth * (1 + rng.uniform(-0.05, 0.05))
        row = [wl, val, err]
        if four:
            row.append(wl_hi - wl_lo)
        rows.append(row)
    rng.shuffle(rows)
    return {'rows': rows}


def build_obs(ocfg):
    from taurex.data.spectrum.array import ArraySpectrum
    return ArraySpectrum(np.array(ocfg['rows'], dtype=float))


FIT_POOL = {
    'T': ('linear', (500.0, 2400.0)),
    'planet_radius': ('linear', (0.5, 1.6)),
    'planet_mass': ('linear', (0.4, 2.5)),
    'T_irr': ('linear', (700.0, 2300.0)),
    'kappa_irr': ('log', (1e-4, 1e-1)),
    'kappa_v1': ('log', (1e-4, 1e-1)),
    'alpha': ('linear', (0.05, 0.95)),
    'clouds_pressure': ('log', (1e1, 1e5)),
    'flat_mix_ratio': ('log', (1e-13, 1e-7)),
    'lee_mie_radius': ('linear', (0.004, 0.06)),
    'lee_mie_mix_ratio': ('log', (1e-13, 1e-8)),
    'He_H2': ('log', (0.03, 0.4)),
}


def gen_fit(rng, mcfg, nmax=4, allow_kinds=('Uniform', 'LogUniform',
                                            'Gaussian', 'LogGaussian'),
            rich=False):
    """Fitted parameters with priors whose support stays in the valid region."""
    cands = []
    if mcfg['tp']['kind'] == 'isothermal':
        cands.append('T')
    cands += ['planet_radius', 'planet_mass']
    cands += [m['name'] for m in mcfg['molecules']]
    if rich:
        if mcfg['tp']['kind'] == 'guillot':
            cands += ['T_irr', 'kappa_irr', 'kappa_v1', 'alpha']
        cands += [n for c_, n in (('SimpleClouds', 'clouds_pressure'),
                                  ('FlatMie', 'flat_mix_ratio'),
                                  ('LeeMie', 'lee_mie_radius'),
                                  ('LeeMie', 'lee_mie_mix_ratio'))
                  if c_ in mcfg['contribs']]
        cands.append('He_H2')
    k = rng.randint(1, min(nmax, len(cands)))
    names = rng.sample(cands, k)
    fit = []
    for n in names:
        if n in FIT_POOL:
            mode, (lo, hi) = FIT_POOL[n]
        else:
            mode, (lo, hi) = 'log', (1e-8, 1e-3)
        if mode == 'linear':
            a = lo + (hi - lo) * rng.uniform(0, 0.4)
            b = hi - (hi - lo) * rng.uniform(0, 0.4)
        else:
            la, lb = math.log10(lo), math.log10(hi)
            a = 10 ** (la + (lb - la) * rng.uniform(0, 0.3))
            b = 10 ** (lb - (lb - la) * rng.uniform(0, 0.3))
        kind = rng.choice(allow_kinds)
        if kind == 'Uniform':
            spec = {'kind': kind, 'args': {'bounds': [a, b]}}
        elif kind == 'LogUniform':
            spec = {'kind': kind, 'args': {'lin_bounds': [a, b]}}
        elif kind == 'Gaussian':
            mean = 0.5 * (a + b)
            spec = {'kind': kind, 'args': {'mean': mean,
                                           'std': (b - a) / 12.0}}
        else:
            la, lb = math.log10(a), math.log10(b)
            spec = {'kind': kind, 'args': {'mean': 0.5 * (la + lb),
                                           'std': (lb - la) / 12.0}}
        fit.append({'name': n, 'mode': rng.choice(['linear', 'log']),
                    'prior': spec, 'set_prior': True})
    return fit


CONTRIB_PARAMS = {'clouds_pressure', 'flat_mix_ratio', 'lee_mie_radius',
                  'lee_mie_mix_ratio'}


def fit_needs_contribs(fit):
    return any(f['name'] in CONTRIB_PARAMS for f in fit)


def configure_optimizer(opt, fit, derived=None, model=None):
    """Apply the fitted-parameter selection to a real Optimizer."""
    for name in list(opt._model.fittingParameters):
        opt.disable_fit(name)
    for name in list(opt._observed.fittingParameters):
        opt.disable_fit(name)
    for f in fit:
        opt.enable_fit(f['name'])
        opt.set_mode(f['name'], f['mode'])
        opt.set_prior(f['name'], M.make_prior(f['prior']))
    if derived is not None:
        for name, tup in list(opt._model.derivedParameters.items()):
            opt._model.derivedParameters[name] = tup[:3] + (name in derived,)
        for name, tup in list(opt._observed.derivedParameters.items()):
            opt._observed.derivedParameters[name] = tup[:3] + (name in derived,)


def fit_order(model, obs, fit):
    """Order in which the optimizer will list the fitted parameters (model
    table order, then observation table order)."""
    names = [f['name'] for f in fit]
    out = [n for n in model.fittingParameters if n in names]
    out += [n for n in obs.fittingParameters if n in names]
    return out


def ref_set(model, obs, fit_by_name, order, theta):
    """Reference: set parameter `name` to ref_to_linear(theta_i) *by name*."""
    for n, v in zip(order, theta):
        lin = M.ref_to_linear(M.ref_prior_is_log(fit_by_name[n]['prior']), v)
        if n in model.fittingParameters:
            model.fittingParameters[n][3](lin)
        else:
            obs.fittingParameters[n][3](lin)


def sample_theta(fit_by_name, order, us):
    return [M.ref_prior_sample(fit_by_name[n]['prior'], u)
            for n, u in zip(order, us)]
