"""Retrieval scenarios shared by C18 / C06 / C09: a small real (or toy) model,
an observation whose bins lie in the well-conditioned interior of the native
grid, and a fitted-parameter selection with priors.  Pure JSON in, objects out.
"""
import math

import numpy as np

from sim import models as M
from sim import realmodel as R

RJUP = 69911000.0
RSOL = 695700000.0


def native_grid(mcfg):
    lo, hi = mcfg['opac']['wn']
    return np.logspace(np.log10(lo), np.log10(hi), mcfg['opac']['ngrid'])


def gen_obs(rng, mcfg, four_col=None):
    """Observation rows (wavelength um, value, error[, width um]) with every
    bin strictly inside the native range and >= 2 native spacings wide."""
    wn = native_grid(mcfg)
    n = len(wn)
    # bin edges on native indices (in index space, fractional), interior only
    nb = rng.randint(2, max(2, min(7, (n - 3) // 3)))
    # (an observation of a single bin is outside the documented domain: the
    # grid clipping needs two wavelengths)
    lo_i, hi_i = 1.2, n - 2.2
    span = hi_i - lo_i
    width = span / nb
    rows = []
    depth = (mcfg['planet']['radius'] * RJUP /
             (mcfg['star']['radius'] * RSOL)) ** 2
    if mcfg.get('family', 'transmission') != 'transmission':
        depth = 1e-3
    four = rng.random() < 0.7 if four_col is None else four_col
    logwn = np.log10(wn)
    for b in range(nb):
        a = lo_i + b * width + rng.uniform(0, 0.15) * width
        c = lo_i + (b + 1) * width - rng.uniform(0, 0.15) * width
        if c - a < 2.0:
            a, c = lo_i + b * width, lo_i + (b + 1) * width
        wa = 10 ** np.interp(a, np.arange(n), logwn)
        wc = 10 ** np.interp(c, np.arange(n), logwn)
        wl_lo, wl_hi = 10000 / wc, 10000 / wa
        wl = 0.5 * (wl_lo + wl_hi)
        err = depth * 10 ** rng.uniform(-4, -1.5)
        val = depth * (1 + rng.uniform(-0.05, 0.05))
        row = [wl, val, err]
        if four:
            row.append(wl_hi - wl_lo)
        rows.append(row)
    rng.shuffle(rows)
    return {'rows': rows}


def build_obs(ocfg):
    from taurex.data.spectrum.array import ArraySpectrum
    return ArraySpectrum(np.array(ocfg['rows'], dtype=float))


FIT_POOL = {
    'T': ('linear', (500.0, 2400.0)),
    'planet_radius': ('linear', (0.5, 1.6)),
    'planet_mass': ('linear', (0.4, 2.5)),
    'T_irr': ('linear', (700.0, 2300.0)),
    'kappa_irr': ('log', (1e-4, 1e-1)),
    'kappa_v1': ('log', (1e-4, 1e-1)),
    'alpha': ('linear', (0.05, 0.95)),
    'clouds_pressure': ('log', (1e1, 1e5)),
    'flat_mix_ratio': ('log', (1e-13, 1e-7)),
    'lee_mie_radius': ('linear', (0.004, 0.06)),
    'lee_mie_mix_ratio': ('log', (1e-13, 1e-8)),
    'He_H2': ('log', (0.03, 0.4)),
}


def gen_fit(rng, mcfg, nmax=4, allow_kinds=('Uniform', 'LogUniform',
                                            'Gaussian', 'LogGaussian'),
            rich=False):
    """Fitted parameters with priors whose support stays in the valid region."""
    cands = []
    if mcfg['tp']['kind'] == 'isothermal':
        cands.append('T')
    cands += ['planet_radius', 'planet_mass']
    cands += [m['name'] for m in mcfg['molecules']]
    if rich:
        if mcfg['tp']['kind'] == 'guillot':
            cands += ['T_irr', 'kappa_irr', 'kappa_v1', 'alpha']
        cands += [n for c_, n in (('SimpleClouds', 'clouds_pressure'),
                                  ('FlatMie', 'flat_mix_ratio'),
                                  ('LeeMie', 'lee_mie_radius'),
                                  ('LeeMie', 'lee_mie_mix_ratio'))
                  if c_ in mcfg['contribs']]
        cands.append('He_H2')
    k = rng.randint(1, min(nmax, len(cands)))
    names = rng.sample(cands, k)
    fit = []
    for n in names:
        if n in FIT_POOL:
            mode, (lo, hi) = FIT_POOL[n]
        else:
            mode, (lo, hi) = 'log', (1e-8, 1e-3)
        if mode == 'linear':
            a = lo + (hi - lo) * rng.uniform(0, 0.4)
            b = hi - (hi - lo) * rng.uniform(0, 0.4)
        else:
            la, lb = math.log10(lo), math.log10(hi)
            a = 10 ** (la + (lb - la) * rng.uniform(0, 0.3))
            b = 10 ** (lb - (lb - la) * rng.uniform(0, 0.3))
        kind = rng.choice(allow_kinds)
        if rich and rng.random() < 0.1:
            a, b = b, a          # bounds given in reverse order
        if kind == 'Uniform':
            spec = {'kind': kind, 'args': {'bounds': [a, b]}}
        elif kind == 'LogUniform':
            spec = {'kind': kind, 'args': {'lin_bounds': [a, b]}}
        elif kind == 'Gaussian':
            mean = 0.5 * (a + b)
            spec = {'kind': kind, 'args': {'mean': mean,
                                           'std': abs(b - a) / 12.0}}
        else:
            la, lb = math.log10(a), math.log10(b)
            spec = {'kind': kind, 'args': {'mean': 0.5 * (la + lb),
                                           'std': abs(lb - la) / 12.0}}
        fit.append({'name': n, 'mode': rng.choice(['linear', 'log']),
                    'prior': spec, 'set_prior': True})
    return fit


CONTRIB_PARAMS = {'clouds_pressure', 'flat_mix_ratio', 'lee_mie_radius',
                  'lee_mie_mix_ratio'}


def fit_needs_contribs(fit):
    return any(f['name'] in CONTRIB_PARAMS for f in fit)


def configure_optimizer(opt, fit, derived=None, model=None, observed=None):
    """Apply the fitted-parameter selection to a real Optimizer (the model and
    observation it was built with are handed over by the caller: the
    optimizer's own attribute names are not part of any property)."""
    model = model if model is not None else opt._model
    observed = observed if observed is not None else opt._observed
    for name in list(model.fittingParameters):
        opt.disable_fit(name)
    for name in list(observed.fittingParameters):
        opt.disable_fit(name)
    for f in fit:
        opt.enable_fit(f['name'])
        apply_fit_entry(opt, f)
    if derived is not None:
        for name, tup in list(model.derivedParameters.items()):
            model.derivedParameters[name] = tup[:3] + (name in derived,)
        for name, tup in list(observed.derivedParameters.items()):
            observed.derivedParameters[name] = tup[:3] + (name in derived,)


def spell_mode(f):
    sp = f.get('mode_spelling', 'lower')
    m = f['mode']
    return m.upper() if sp == 'upper' else m.title() if sp == 'title' else m


def apply_fit_entry(opt, f):
    """Mode, then either a user prior or (set_prior False) bounds from which
    the optimizer derives its default prior."""
    opt.set_mode(f['name'], spell_mode(f))
    if f.get('set_prior', True):
        opt.set_prior(f['name'], M.make_prior(f['prior']))
    else:
        a = f['prior']['args']
        opt.set_boundary(f['name'], list(a.get('lin_bounds', a.get('bounds'))))


def default_prior_share(rng, fit, p=0.3):
    """Let a share of the bounded priors be the optimizer's default prior
    (derived from mode and bounds) instead of a user prior."""
    for f in fit:
        k = f['prior']['kind']
        a = f['prior']['args']
        if k == 'Uniform' and rng.random() < p:
            f['set_prior'] = False
            f['mode'] = 'linear'
        elif k == 'LogUniform' and 'lin_bounds' in a and rng.random() < p:
            f['set_prior'] = False
            f['mode'] = 'log'
    return fit


def mutate_fit(rng, fit, original):
    """A later configuration of the same retrieval: priors narrowed or
    replaced, modes flipped, parameters dropped or brought back.  Supports
    stay inside the previous ones (valid region)."""
    import copy
    defaults = [i for i, f in enumerate(fit)
                if not f.get('set_prior', True) and not f.get('signed')]
    if defaults and rng.random() < 0.2:
        # nothing changes but one boundary, given as factors of the value the
        # parameter has at that moment
        new = copy.deepcopy(fit)
        new[rng.choice(defaults)]['factor'] = [rng.uniform(0.3, 0.9),
                                               rng.uniform(1.1, 3.0)]
        return new
    if rng.random() < 0.15:
        new = copy.deepcopy(original)
    else:
        new = copy.deepcopy(fit)
    for f in new:
        f.pop('factor', None)
    user = {f['name'] for f in fit if f.get('set_prior', True)}
    if len(new) > 1 and rng.random() < 0.25:
        del new[rng.randrange(len(new))]
    have = {f['name'] for f in new}
    for f in original:
        if f['name'] not in have and rng.random() < 0.4:
            new.append(copy.deepcopy(f))
    for f in new:
        a = f['prior']['args']
        k = f['prior']['kind']
        if rng.random() < 0.6:
            if k in ('Uniform', 'LogUniform'):
                key = 'lin_bounds' if 'lin_bounds' in a else 'bounds'
                lo, hi = a[key]
                if k == 'LogUniform' and key == 'lin_bounds':
                    la, lb = math.log10(lo), math.log10(hi)
                    a[key] = [10 ** (la + (lb - la) * rng.uniform(0, 0.3)),
                              10 ** (lb - (lb - la) * rng.uniform(0, 0.3))]
                else:
                    a[key] = [lo + (hi - lo) * rng.uniform(0, 0.3),
                              hi - (hi - lo) * rng.uniform(0, 0.3)]
            elif 'mean' in a:
                a['mean'] = a['mean'] + a['std'] * rng.uniform(-1, 1)
                a['std'] = a['std'] * rng.uniform(0.5, 1.0)
        if f['name'] in user:
            f['set_prior'] = True       # user priors cannot be withdrawn
        if f.get('signed'):
            continue       # a linear-only parameter (negative values legal)
        if not f.get('set_prior', True) and rng.random() < 0.3:
            # default prior follows the mode: flip both
            if k == 'Uniform':
                f['mode'] = 'log'
                f['prior'] = {'kind': 'LogUniform',
                              'args': {'lin_bounds': list(a['bounds'])}}
            elif 'lin_bounds' in a:
                f['mode'] = 'linear'
                f['prior'] = {'kind': 'Uniform',
                              'args': {'bounds': list(a['lin_bounds'])}}
        elif f.get('set_prior', True) and rng.random() < 0.2:
            f['mode'] = rng.choice(['linear', 'log'])
    return new


def apply_refit(opt, old, new):
    """Bring a long-lived optimizer from configuration `old` to `new` with the
    public mutators (what a user does between two fits): only what changed is
    touched.  Entries with a 'factor' get their bounds from
    set_factor_boundary (a factor times the parameter's current value)."""
    newnames = {f['name'] for f in new}
    by_old = {f['name']: f for f in old}
    for f in old:
        if f['name'] not in newnames:
            opt.disable_fit(f['name'])
    for f in new:
        o = by_old.get(f['name'])
        if o is None:
            opt.enable_fit(f['name'])
        if o is None or o['mode'] != f['mode']:
            opt.set_mode(f['name'], spell_mode(f))
        if f.get('factor'):
            opt.set_factor_boundary(f['name'], list(f['factor']))
        elif o is None or o['prior'] != f['prior'] or o.get('factor') or \
                o.get('set_prior', True) != f.get('set_prior', True):
            if f.get('set_prior', True):
                opt.set_prior(f['name'], M.make_prior(f['prior']))
            else:
                a = f['prior']['args']
                opt.set_boundary(f['name'],
                                 list(a.get('lin_bounds', a.get('bounds'))))


def resolve_factors(fit, current_value):
    """Entries whose bounds were given as factors of the parameter's current
    value: the default prior implied by mode and [f0*v, f1*v]."""
    out = []
    for f in fit:
        f = dict(f)
        if f.get('factor'):
            v = current_value(f['name'])
            f['prior'] = M.default_prior_spec(
                f['mode'], [f['factor'][0] * v, f['factor'][1] * v])
        out.append(f)
    return out


def fit_order(model, obs, fit):
    """Order in which the optimizer will list the fitted parameters (model
    table order, then observation table order)."""
    names = [f['name'] for f in fit]
    out = [n for n in model.fittingParameters if n in names]
    out += [n for n in obs.fittingParameters if n in names]
    return out


def ref_set(model, obs, fit_by_name, order, theta):
    """Reference: set parameter `name` to ref_to_linear(theta_i) *by name*."""
    for n, v in zip(order, theta):
        lin = M.ref_to_linear(M.ref_prior_is_log(fit_by_name[n]['prior']), v)
        if n in model.fittingParameters:
            model.fittingParameters[n][3](lin)
        else:
            obs.fittingParameters[n][3](lin)


def sample_theta(fit_by_name, order, us):
    return [M.ref_prior_sample(fit_by_name[n]['prior'], u)
            for n, u in zip(order, us)]
