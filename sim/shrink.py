"""Delta debugging over the explicit op list of a case, then check-specific
simplifications (config shrinking, argument simplification).

Predicate: executing the candidate still yields a violation with the same
(class, key) identity.  The executor is a pure function of the case, so the
minimised case replays exactly.
"""
import copy
import time


def _fails(mod, case, want):
    try:
        out = mod.execute(case)
    except Exception:
        return False
    for v in out.violations:
        if v.ident == want:
            return True
    return False


def shrink(mod, case, want, budget_s=60.0):
    t0 = time.time()
    nexec = [0]

    def test(c):
        nexec[0] += 1
        return _fails(mod, c, want)

    def over():
        return time.time() - t0 > budget_s

    best = copy.deepcopy(case)
    best.pop('violation_ident', None)
    if not test(best):
        return best, nexec[0]

    changed = True
    while changed and not over():
        changed = False
        # --- ddmin over ops
        ops = best.get('ops', [])
        n = 2
        while len(ops) >= 1 and not over():
            chunk = max(1, len(ops) // n)
            reduced = False
            for start in range(0, len(ops), chunk):
                cand_ops = ops[:start] + ops[start + chunk:]
                cand = dict(best)
                cand['ops'] = cand_ops
                if test(cand):
                    best = cand
                    ops = cand_ops
                    n = max(n - 1, 2)
                    reduced = True
                    changed = True
                    break
                if over():
                    break
            if not reduced:
                if chunk == 1:
                    break
                n = min(len(ops), n * 2)
        # --- check-specific simplifications
        if hasattr(mod, 'simplify'):
            progress = True
            while progress and not over():
                progress = False
                for cand in mod.simplify(copy.deepcopy(best)):
                    if over():
                        break
                    if test(cand):
                        best = cand
                        progress = True
                        changed = True
                        break
    return best, nexec[0]
