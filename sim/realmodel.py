"""Small real TauREx forward models built from JSON config, with in-memory
opacity / CIA tables registered through the public cache API.

cfg = {
  'family': 'transmission'|'emission'|'directimage',
  'nlayers': int, 'pmin': float, 'pmax': float,
  'molecules': [{'name','mix'}...],        # ConstantGas traces
  'fill': ['H2','He'], 'ratio': 0.17,
  'tp': {'kind':'isothermal','T':..} | {'kind':'guillot', ...},
  'contribs': ['Absorption','CIA','Rayleigh','SimpleClouds','FlatMie','LeeMie'],
  'cia_pairs': ['H2-H2','H2-He'],
  'opac': {'seed': int, 'ngrid': int, 'nT': int, 'nP': int,
           'wn': [lo, hi], 'logmag': [lo, hi]},
  'planet': {'mass','radius'}, 'star': {'T','radius'},
  'new_path': bool,
}
"""
import numpy as np

from taurex.opacity import InterpolatingOpacity
from taurex.cia import CIA


class MemOpacity(InterpolatingOpacity):
    def __init__(self, molecule, wngrid, tgrid, pgrid, xsec,
                 interpolation_mode='linear'):
        super().__init__('MemOpacity:' + molecule, interpolation_mode)
        self._molecule_name = molecule
        self._wavenumber_grid = np.asarray(wngrid, dtype=float)
        self._temperature_grid = np.asarray(tgrid, dtype=float)
        self._pressure_grid = np.asarray(pgrid, dtype=float)
        self._xsec_grid = np.asarray(xsec, dtype=float)

    @property
    def moleculeName(self):
        return self._molecule_name

    @property
    def xsecGrid(self):
        return self._xsec_grid

    @property
    def wavenumberGrid(self):
        return self._wavenumber_grid

    @property
    def temperatureGrid(self):
        return self._temperature_grid

    @property
    def pressureGrid(self):
        return self._pressure_grid


class MemCIA(CIA):
    """Temperature-interpolated (linear) CIA table on its own grid."""

    def __init__(self, pair, wngrid, tgrid, table):
        super().__init__('MemCIA', pair)
        self._wn = np.asarray(wngrid, dtype=float)
        self._t = np.asarray(tgrid, dtype=float)
        self._tab = np.asarray(table, dtype=float)   # [T, wn]

    @property
    def wavenumberGrid(self):
        return self._wn

    @property
    def temperatureGrid(self):
        return self._t

    def compute_cia(self, temperature):
        t = self._t
        if temperature != temperature:
            # NaN temperature (e.g. a negative Guillot opacity): the real CIA
            # readers clamp the index and let the NaN propagate
            return np.full(self._tab.shape[1], np.nan)
        # outside the tabulated temperatures the real readers hand back a row
        # of their table (a view, not a copy): so does this one
        if temperature <= t[0]:
            return self._tab[0]
        if temperature >= t[-1]:
            return self._tab[-1]
        i = int(np.searchsorted(t, temperature)) - 1
        f = (temperature - t[i]) / (t[i + 1] - t[i])
        return self._tab[i] * (1 - f) + self._tab[i + 1] * f


def opac_tables(ocfg, molecules, pairs):
    """Deterministic tables from ocfg['seed'] (named per species)."""
    from sim.kernel import H
    lo, hi = ocfg['wn']
    n = ocfg['ngrid']
    wn = np.logspace(np.log10(lo), np.log10(hi), n)
    tgrid = np.linspace(200.0, 3200.0, ocfg.get('nT', 4))
    pgrid = np.logspace(-2, 7, ocfg.get('nP', 4))
    mlo, mhi = ocfg['logmag']
    ops, cias = {}, {}
    own = ocfg.get('own_grid', {})
    for m in molecules:
        rs = np.random.RandomState(H(ocfg['seed'], 'xsec', m) % 2**32)
        x = 10 ** rs.uniform(mlo, mhi, size=(len(pgrid), len(tgrid), n))
        g = wn
        if own.get(m) == 'lin':
            # this molecule's table lives on its own grid: same end points
            # and number of points, evenly spaced
            g = np.linspace(wn[0], wn[-1], n)   # exactly the same ends
        ops[m] = (g, tgrid, pgrid, x)
    ct = tgrid
    if ocfg.get('cia_T'):
        ct = np.linspace(ocfg['cia_T'][0], ocfg['cia_T'][1], len(tgrid))
    for p in pairs:
        rs = np.random.RandomState(H(ocfg['seed'], 'cia', p) % 2**32)
        x = 10 ** rs.uniform(-56, -52, size=(len(ct), n))
        cias[p] = (wn, ct, x)
    return ops, cias


def reset_caches():
    from taurex.cache import OpacityCache, CIACache, GlobalCache
    from taurex.cache.ktablecache import KTableCache
    # re-run init() on the process-wide singletons: every field they (or a
    # changed tree) create there starts fresh for each simulated run, as it
    # would in a new process
    for cache in (GlobalCache(), OpacityCache(), CIACache(), KTableCache()):
        cache.init()


def install_opacities(cfg):
    from taurex.cache import OpacityCache, CIACache
    reset_caches()
    mols = [m['name'] for m in cfg['molecules'] if not m.get('inactive')]
    pairs = cfg.get('cia_pairs', []) if 'CIA' in cfg['contribs'] else []
    ops, cias = opac_tables(cfg['opac'], mols, pairs)
    for m in mols:
        OpacityCache().add_opacity(MemOpacity(m, *ops[m]))
    for p in pairs:
        CIACache().add_cia(MemCIA(p, *cias[p]))


def readd_opacities(cfg, mode):
    """After OpacityCache().set_interpolation(mode) (which clears the cache):
    hand the in-memory tables over again, built with that mode, through the
    public add_opacity (a no-op for molecules the cache still holds)."""
    from taurex.cache import OpacityCache
    mols = [m['name'] for m in cfg['molecules'] if not m.get('inactive')]
    ops, _ = opac_tables(cfg['opac'], mols, [])
    for m in mols:
        OpacityCache().add_opacity(MemOpacity(m, *ops[m],
                                              interpolation_mode=mode))


def install_ktables(cfg, dirpath):
    """Correlated-k mode: one pickle k-table per absorbing molecule on the
    scratch store (the chemistry learns the active gases from the files in
    ktable_path), on the configuration's native grid."""
    import os
    import pickle
    from sim.kernel import H
    from taurex.cache import GlobalCache
    from taurex.cache.ktablecache import KTableCache
    os.makedirs(dirpath, exist_ok=True)
    oc = cfg['opac']
    lo, hi = oc['wn']
    n = oc['ngrid']
    wn = np.logspace(np.log10(lo), np.log10(hi), n)
    tgrid = np.linspace(200.0, 3200.0, oc.get('nT', 4))
    pgrid = np.logspace(-2, 7, oc.get('nP', 4))
    ng = oc.get('ngauss_k', 3)
    rs0 = np.random.RandomState(H(oc['seed'], 'kweights') % 2**32)
    w = rs0.uniform(0.2, 1.0, ng)
    w = w / w.sum()
    for m in cfg['molecules']:
        if m.get('inactive') or m['name'] in ('H', 'e-'):
            continue
        rs = np.random.RandomState(H(oc['seed'], 'ktab', m['name']) % 2**32)
        k = 10 ** rs.uniform(oc['logmag'][0], oc['logmag'][1],
                             size=(len(pgrid), len(tgrid), n, ng))
        d = {'name': m['name'], 'bin_centers': wn, 'ngauss': ng, 't': tgrid,
             'p': pgrid / 1e5, 'kcoeff': k, 'weights': w}
        with open(os.path.join(dirpath, '%s.R100.ktable.pickle' % m['name']),
                  'wb') as f:
            pickle.dump(d, f)
    GlobalCache()['ktable_path'] = dirpath
    GlobalCache()['opacity_method'] = 'ktables'
    KTableCache().clear_cache()


def make_contribution(name, cfg):
    from taurex import contributions as C
    if name == 'Absorption':
        return C.AbsorptionContribution()
    if name == 'CIA':
        return C.CIAContribution(cia_pairs=list(cfg.get('cia_pairs', [])))
    if name == 'Rayleigh':
        return C.RayleighContribution()
    if name == 'SimpleClouds':
        return C.SimpleCloudsContribution(
            clouds_pressure=cfg.get('clouds_pressure', 1e3))
    if name == 'FlatMie':
        from taurex.contributions.flatmie import FlatMieContribution
        a = cfg.get('flatmie', {})
        return FlatMieContribution(
            flat_mix_ratio=a.get('mix', 1e-8), flat_bottomP=a.get('bottomP', -1),
            flat_topP=a.get('topP', -1))
    if name == 'LeeMie':
        from taurex.contributions.leemie import LeeMieContribution
        a = cfg.get('leemie', {})
        return LeeMieContribution(
            lee_mie_radius=a.get('radius', 0.01), lee_mie_q=a.get('q', 40),
            lee_mie_mix_ratio=a.get('mix', 1e-10),
            lee_mie_bottomP=a.get('bottomP', -1), lee_mie_topP=a.get('topP', -1))
    if name == 'HydrogenIon':
        from taurex.contributions.hm import HydrogenIon
        return HydrogenIon()
    raise ValueError(name)


def make_gas(m):
    from taurex.data.profiles.chemistry import ConstantGas
    g = m.get('gas')
    if not g or g['kind'] == 'constant':
        return ConstantGas(m['name'], mix_ratio=m['mix'])
    if g['kind'] == 'twopoint':
        from taurex.data.profiles.chemistry.gas.twopointgas import TwoPointGas
        return TwoPointGas(m['name'], mix_ratio_surface=g['surface'],
                           mix_ratio_top=g['top'])
    if g['kind'] == 'array':
        from taurex.data.profiles.chemistry.gas.arraygas import ArrayGas
        return ArrayGas(m['name'], mix_ratio_array=list(g['values']))
    if g['kind'] == 'power':
        from taurex.data.profiles.chemistry import PowerGas
        return PowerGas(m['name'], profile_type=g.get('profile_type', 'auto'),
                        mix_ratio_surface=g.get('surface'),
                        alpha=g.get('alpha'), beta=g.get('beta'),
                        gamma=g.get('gamma'))
    raise ValueError(g['kind'])


def make_temperature(tp):
    from taurex.data.profiles.temperature import Isothermal, Guillot2010
    if tp['kind'] == 'isothermal':
        return Isothermal(T=tp['T'])
    if tp['kind'] == 'rodgers':
        from taurex.data.profiles.temperature import Rodgers2000
        cov = tp.get('cov')
        return Rodgers2000(temperature_layers=list(tp['layers']),
                           correlation_length=tp.get('corr', 5.0),
                           covariance_matrix=None if cov is None
                           else np.array(cov, dtype=float))
    if tp['kind'] == 'tarray':
        from taurex.data.profiles.temperature.temparray import \
            TemperatureArray
        return TemperatureArray(tp_array=list(tp['values']),
                                p_points=tp.get('p_points'),
                                reverse=tp.get('reverse', False))
    if tp['kind'] == 'guillot':
        return Guillot2010(T_irr=tp['T_irr'], kappa_irr=tp.get('kappa_ir', 0.01),
                           kappa_v1=tp.get('kappa_v1', 0.005),
                           kappa_v2=tp.get('kappa_v2', 0.005),
                           alpha=tp.get('alpha', 0.5),
                           T_int=tp.get('T_int', 100))
    raise ValueError(tp['kind'])


_COND_CLASS = []


def cond_chemistry_class():
    """A free chemistry that also reports condensates, as plug-in chemistries
    (GGchem, FastChem with condensation) do: two cloud species whose mixing
    ratios follow the temperature and the first active gas of each sample."""
    if _COND_CLASS:
        return _COND_CLASS[0]
    from taurex.data.profiles.chemistry import TaurexChemistry

    class CondChemistry(TaurexChemistry):

        @property
        def condensates(self):
            return ['Mg2SiO4(c)', 'Fe(c)']

        @property
        def condensateMixProfile(self):
            T = np.asarray(self._cond_T, dtype=float)
            act = np.asarray(self.activeGasMixProfile, dtype=float)
            second = 0.1 * act[0] if act.shape[0] else 1e-9 * T
            return np.array([1e-9 * T, second])

        def initialize_chemistry(self, nlayers=100, temperature_profile=None,
                                 pressure_profile=None,
                                 altitude_profile=None):
            self._cond_T = np.array(temperature_profile, dtype=float)
            return super().initialize_chemistry(
                nlayers=nlayers, temperature_profile=temperature_profile,
                pressure_profile=pressure_profile,
                altitude_profile=altitude_profile)

    _COND_CLASS.append(CondChemistry)
    return CondChemistry


def build_model(cfg, install=True, contrib_order=None):
    """Returns a built model.  `contrib_order` overrides the add order."""
    from taurex.data.profiles.chemistry import TaurexChemistry, ConstantGas
    from taurex.data import Planet
    from taurex.data.stellar import BlackbodyStar
    from taurex.data.profiles.pressure import SimplePressureProfile
    if install:
        install_opacities(cfg)
    ratio = cfg.get('ratio', 0.17)
    if isinstance(ratio, (list, tuple)):
        ratio = list(ratio)      # the chemistry keeps (and writes into) it
    chem_class = cond_chemistry_class() if cfg.get('condensate') \
        else TaurexChemistry
    chem = chem_class(fill_gases=list(cfg.get('fill', ['H2', 'He'])),
                      ratio=ratio)
    for m in cfg['molecules']:
        chem.addGas(make_gas(m))
    pl = cfg.get('planet', {})
    st = cfg.get('star', {})
    pkw = {k2: pl[k1] for k1, k2 in (('distance', 'planet_distance'),
                                     ('impact', 'impact_param'),
                                     ('period', 'orbital_period'),
                                     ('albedo', 'albedo'),
                                     ('transit_time', 'transit_time'))
           if k1 in pl}
    planet = Planet(planet_mass=pl.get('mass', 1.0),
                    planet_radius=pl.get('radius', 1.0), **pkw)
    skw = {k2: st[k1] for k1, k2 in (('distance', 'distance'),
                                     ('magK', 'magnitudeK'), ('mass', 'mass'),
                                     ('metallicity', 'metallicity'))
           if k1 in st}
    star = BlackbodyStar(temperature=st.get('T', 5000.0),
                         radius=st.get('radius', 1.0), **skw)
    press = SimplePressureProfile(nlayers=cfg['nlayers'],
                                  atm_min_pressure=cfg.get('pmin', 1e-1),
                                  atm_max_pressure=cfg.get('pmax', 1e6))
    temp = make_temperature(cfg['tp'])
    fam = cfg.get('family', 'transmission')
    if fam == 'transmission':
        from taurex.model import TransmissionModel
        model = TransmissionModel(planet=planet, star=star,
                                  pressure_profile=press,
                                  temperature_profile=temp, chemistry=chem,
                                  new_path_method=cfg.get('new_path', False))
    elif fam == 'emission':
        from taurex.model import EmissionModel
        model = EmissionModel(planet=planet, star=star, pressure_profile=press,
                              temperature_profile=temp, chemistry=chem,
                              ngauss=cfg.get('ngauss', 4))
    elif fam == 'directimage':
        from taurex.model import DirectImageModel
        model = DirectImageModel(planet=planet, star=star,
                                 pressure_profile=press,
                                 temperature_profile=temp, chemistry=chem,
                                 ngauss=cfg.get('ngauss', 4))
    else:
        raise ValueError(fam)
    order = contrib_order if contrib_order is not None else cfg['contribs']
    for c in order:
        model.add_contribution(make_contribution(c, cfg))
    model.build()
    return model


def add_extra_contribs(rng, cfg, p=0.3):
    """Optionally add a cloud deck and one haze (with the settings they need
    to evaluate) to a generated configuration."""
    if rng.random() < p:
        cfg['contribs'] = list(cfg['contribs']) + ['SimpleClouds']
        cfg['clouds_pressure'] = 10 ** rng.uniform(1, 5)
    if rng.random() < p:
        haze = rng.choice(['FlatMie', 'LeeMie'])
        cfg['contribs'] = list(cfg['contribs']) + [haze]
        cfg['flatmie'] = {'mix': 10 ** rng.uniform(-12, -8),
                          'bottomP': rng.choice([-1, 1e5]),
                          'topP': rng.choice([1e1, 1e2])}
        cfg['leemie'] = {'radius': rng.uniform(0.005, 0.05),
                         'q': rng.uniform(10, 60),
                         'mix': 10 ** rng.uniform(-12, -9),
                         'bottomP': rng.choice([-1, 1e5]),
                         'topP': rng.choice([-1, 1e2])}
    return cfg


def gen_model_cfg(rng, family=None, contribs=None, nmol=None, pool=None):
    """Seeded small-model configuration (valid region)."""
    pool = list(pool or ['H2O', 'CH4', 'CO2', 'CO'])
    nmol = nmol or rng.choice([1, 2, 2, 3])
    mols = rng.sample(pool, nmol)
    cfg = {
        'family': family or rng.choice(['transmission', 'transmission',
                                        'transmission', 'emission', 'emission',
                                        'directimage']),
        'nlayers': rng.randint(3, 10),
        'pmin': 10 ** rng.uniform(-2, 1), 'pmax': 10 ** rng.uniform(5, 6.5),
        'molecules': [{'name': m, 'mix': 10 ** rng.uniform(-7, -3)}
                      for m in mols],
        'fill': ['H2', 'He'], 'ratio': rng.uniform(0.05, 0.3),
        'tp': {'kind': 'isothermal', 'T': rng.uniform(600, 2200)},
        'contribs': contribs if contribs is not None else
        ['Absorption'] + [c for c in ('CIA', 'Rayleigh') if rng.random() < 0.5],
        'cia_pairs': ['H2-H2', 'H2-He'][:rng.randint(1, 2)],
        'opac': {'seed': rng.randrange(2**31), 'ngrid': rng.randint(10, 40),
                 'nT': rng.randint(2, 4), 'nP': rng.randint(2, 5),
                 'wn': [400.0, 400.0 * 10 ** rng.uniform(0.5, 1.3)],
                 'logmag': [-24, -20]},
        'planet': {'mass': rng.uniform(0.3, 3), 'radius': rng.uniform(0.5, 1.8)},
        'star': {'T': rng.uniform(3500, 7000), 'radius': rng.uniform(0.5, 1.5)},
        'new_path': False,
    }
    if rng.random() < 0.3:
        cfg['tp'] = {'kind': 'guillot', 'T_irr': rng.uniform(800, 2000),
                     'kappa_ir': 10 ** rng.uniform(-3, -1),
                     'kappa_v1': 10 ** rng.uniform(-3, -1),
                     'kappa_v2': 10 ** rng.uniform(-3, -1),
                     'alpha': rng.uniform(0.1, 0.9)}
    return cfg
