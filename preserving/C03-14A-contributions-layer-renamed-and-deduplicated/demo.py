import os, sys; sys.path.insert(0, os.getcwd())
"""
Reviewer's check of property C03 (optical depth composes additively over
contributions and species) for taurex.model.TransmissionModel.

Everything the model needs (cross-sections, CIA, k-tables) is supplied by
small analytic in-process stand-ins so that the expected transmittance can be
computed independently, with plain numpy, from the public profiles of the
model (temperature, pressure, density, altitude, mixing ratios):

    tau_src[l, w] = sum_{k>=l} sigma_src[k, w] * rho[k]^(1 or 2) * dl[l][k-l]

Exit status 0 = every check passed.
"""
import itertools
import logging
import numpy as np

import taurex
assert os.path.realpath(taurex.__file__).startswith(
    os.path.realpath(os.getcwd()) + os.sep), taurex.__file__

import taurex.log
taurex.log.disableLogging() if hasattr(taurex.log, 'disableLogging') else None
logging.getLogger('taurex').setLevel(logging.CRITICAL)

from taurex.cache import OpacityCache, CIACache, GlobalCache
from taurex.cache.ktablecache import KTableCache
from taurex.opacity import Opacity
from taurex.opacity.ktables.ktable import KTable
from taurex.cia import CIA
from taurex.model import TransmissionModel
from taurex.data import Planet
from taurex.data.stellar import BlackbodyStar
from taurex.data.profiles.chemistry import TaurexChemistry, ConstantGas
from taurex.data.profiles.temperature import Isothermal, Guillot2010
from taurex.contributions import (AbsorptionContribution, CIAContribution,
                                  RayleighContribution,
                                  SimpleCloudsContribution,
                                  FlatMieContribution, LeeMieContribution)
from taurex.util.scattering import rayleigh_sigma_from_name
from taurex.util.output import store_contributions
from taurex.constants import KBOLTZ

CUT = np.exp(-10.0)          # C01: a layer is abandoned once min(tau) > 10
FAILURES = []
NCHECK = [0]


def check(cond, msg):
    NCHECK[0] += 1
    if not cond:
        FAILURES.append(msg)
        print('FAIL:', msg)


# --------------------------------------------------------------------------
# analytic stand-ins for the opacity data
# --------------------------------------------------------------------------
WN = np.linspace(400.0, 6000.0, 57)


def xsec_formula(idx, T, P, wn):
    """positive, smooth, different for every molecule"""
    centre = 900.0 + 1100.0 * idx
    band = np.exp(-0.5 * ((wn - centre) / (250.0 + 60.0 * idx)) ** 2)
    return (2.0e-26 * (1 + idx)) * (0.03 + band) * (T / 1000.0) ** (0.5 + 0.2 * idx) \
        * (1.0 + 0.1 * np.log10(P / 1.0e5 + 1.0e-12) ** 2 / 10.0)


class AnalyticOpacity(Opacity):
    def __init__(self, name, idx):
        super().__init__('Analytic:' + name)
        self._mol = name
        self._idx = idx

    @property
    def moleculeName(self):
        return self._mol

    @property
    def wavenumberGrid(self):
        return WN

    @property
    def temperatureGrid(self):
        return np.array([100.0, 5000.0])

    @property
    def pressureGrid(self):
        return np.array([1e-6, 1e8])

    def compute_opacity(self, temperature, pressure, wngrid=None):
        wn = WN if wngrid is None else WN[wngrid]
        return xsec_formula(self._idx, temperature, pressure, wn)


NG = 4
KW = np.polynomial.legendre.leggauss(NG)[1] / 2.0
KG = np.array([0.2, 0.7, 1.4, 3.0])


class AnalyticKTable(KTable, AnalyticOpacity):
    @classmethod
    def discover(cls):      # lets the chemistry see these molecules as active
        return [(m, [m, i]) for i, m in enumerate(MOLS)]

    @property
    def weights(self):
        return KW

    def compute_opacity(self, temperature, pressure, wngrid=None):
        wn = WN if wngrid is None else WN[wngrid]
        return xsec_formula(self._idx, temperature, pressure, wn)[:, None] * KG[None, :]


def cia_formula(idx, T, wn):
    return 3.0e-58 * (1 + idx) * (1.0 + np.cos(wn / (700.0 + 150 * idx)) ** 2) \
        * (T / 800.0) ** 0.7


class AnalyticCIA(CIA):
    def __init__(self, pair, idx):
        super().__init__('AnalyticCIA', pair)
        self._idx = idx

    @property
    def wavenumberGrid(self):
        return WN

    @property
    def temperatureGrid(self):
        return np.array([100.0, 5000.0])

    def compute_cia(self, temperature):
        return cia_formula(self._idx, temperature, WN)


MOLS = ['H2O', 'CH4', 'CO2', 'NH3']
PAIRS = ['H2-H2', 'H2-He']
for i, m in enumerate(MOLS):
    OpacityCache().add_opacity(AnalyticOpacity(m, i))
    KTableCache().add_opacity(AnalyticKTable(m, i))
for i, p in enumerate(PAIRS):
    CIACache().add_cia(AnalyticCIA(p, i))
from taurex.parameter.classfactory import ClassFactory
ClassFactory().ktableKlasses.add(AnalyticKTable)
GlobalCache()['opacity_method'] = 'xsec'


# --------------------------------------------------------------------------
# model construction and the independent calculation
# --------------------------------------------------------------------------
def make_model(gases, contribs, nlayers=9, temperature=None, new_path=False,
               fill=('H2', 'He'), pmax=1e6, pmin=1e-2):
    chem = TaurexChemistry(fill_gases=list(fill), ratio=0.17)
    for name, mix in gases:
        chem.addGas(ConstantGas(name, mix_ratio=mix))
    tm = TransmissionModel(planet=Planet(planet_mass=0.8, planet_radius=1.1),
                           star=BlackbodyStar(temperature=5500, radius=0.9),
                           temperature_profile=temperature or Isothermal(T=1300.0),
                           chemistry=chem, nlayers=nlayers,
                           atm_min_pressure=pmin, atm_max_pressure=pmax,
                           new_path_method=new_path)
    for c in contribs:
        tm.add_contribution(c)
    tm.build()
    return tm


def path_lengths(tm):
    """chord lengths through the shells seen from the tangent layer, computed
    from the altitude grid (the classic plane-parallel-shell geometry)."""
    z = tm.altitudeProfile
    dz = tm.deltaz
    R = tm.planet.fullRadius
    n = tm.nLayers
    out = []
    for l in range(n):
        r_tan = R + dz[0] / 2 + z[l]
        r_top = R + dz[0] / 2 + z[l:] + dz[l:n] / 2
        s = np.sqrt(r_top ** 2 - r_tan ** 2)
        out.append(2.0 * np.diff(np.concatenate([[0.0], s])))
    return out


def mix_of(tm, gas):
    chem = tm.chemistry
    if gas in chem.activeGases:
        return chem.activeGasMixProfile[list(chem.activeGases).index(gas)]
    return chem.inactiveGasMixProfile[list(chem.inactiveGases).index(gas)]


def expected_sigmas(tm, contrib, wn):
    """dict component name -> (sigma[layer, wn], density power)"""
    T, P, n = tm.temperatureProfile, tm.pressureProfile, tm.nLayers
    out = {}
    if isinstance(contrib, AbsorptionContribution):
        for gas in tm.chemistry.activeGases:
            idx = MOLS.index(gas)
            x = np.array([xsec_formula(idx, T[l], P[l], wn) for l in range(n)])
            out[gas] = (x * mix_of(tm, gas)[:, None], 1)
    elif isinstance(contrib, CIAContribution):
        for pair in contrib.ciaPairs:
            a, b = pair.split('-')
            x = np.array([np.interp(wn, WN, cia_formula(PAIRS.index(pair), T[l], WN))
                          for l in range(n)])
            out[pair] = (x * (mix_of(tm, a) * mix_of(tm, b))[:, None], 2)
    elif isinstance(contrib, RayleighContribution):
        for gas in list(tm.chemistry.activeGases) + list(tm.chemistry.inactiveGases):
            s = rayleigh_sigma_from_name(gas, wn)
            if s is None or mix_of(tm, gas).max() == 0.0:
                continue
            out[gas] = (s[None, :] * mix_of(tm, gas)[:, None], 1)
    elif isinstance(contrib, FlatMieContribution):
        # uniform grey opacity between the two pressures (here: whole layers)
        lev = tm.pressure.pressure_profile_levels
        lo, hi = sorted([contrib.mieTopPressure, contrib.mieBottomPressure])
        up, down = lev[1:], lev[:-1]
        frac = np.clip((np.minimum(np.log10(down), np.log10(hi)) -
                        np.maximum(np.log10(up), np.log10(lo))), 0, None)
        frac = frac / frac.max()
        out['Flat'] = (np.repeat((frac * contrib.mieMixing)[:, None], wn.size, 1), 1)
    elif isinstance(contrib, LeeMieContribution):
        a = contrib.mieRadius
        x = 2.0 * np.pi * a / (10000 / wn)
        q = 5.0 / (contrib.mieQ * x ** -4.0 + x ** 0.2)
        s = q * np.pi * (a * 1e-6) ** 2 * contrib.mieMixing
        inside = (P <= contrib.mieBottomPressure) & (P >= contrib.mieTopPressure)
        out['Lee'] = (inside[:, None] * s[None, :], 1)
    elif isinstance(contrib, SimpleCloudsContribution):
        out['Clouds'] = None
    else:
        raise TypeError(contrib)
    return out


def expected_tau(tm, sigma, power, dl):
    rho = tm.densityProfile
    n = tm.nLayers
    tau = np.zeros_like(sigma)
    for l in range(n):
        w = (rho[l:] ** power) * dl[l]
        tau[l] = (sigma[l:] * w[:, None]).sum(axis=0)
    return tau


def expected_all(tm, wn, dl):
    """{contribution name: {component: tau}} from first principles"""
    res = {}
    for c in tm.contribution_list:
        comp = {}
        for name, val in expected_sigmas(tm, c, wn).items():
            if val is None:   # cloud deck: opaque at/below the cloud-top pressure
                t = np.zeros((tm.nLayers, wn.size))
                t[tm.pressureProfile >= c.cloudsPressure] = np.inf
            else:
                t = expected_tau(tm, val[0], val[1], dl)
            comp[name] = t
        res[c.name] = comp
    return res


def close_trans(got, tau_expected, what, rtol=1e-9):
    """transmittance equals exp(-tau_expected): tightly on the rows where the
    cut-off cannot have acted, within the cut-off elsewhere."""
    want = np.exp(-tau_expected)
    check(got.shape == want.shape, what + ': shape %s vs %s' % (got.shape, want.shape))
    if got.shape != want.shape:
        return
    uncut = tau_expected.min(axis=1) <= 10.0
    check(np.allclose(got[uncut], want[uncut], rtol=rtol, atol=1e-300),
          what + ': transmittance differs from the independent value (max rel %.3g)'
          % (np.max(np.abs(got[uncut] - want[uncut]) / np.maximum(want[uncut], 1e-300))
             if uncut.any() else 0))
    check(np.all(np.abs(got[~uncut] - want[~uncut]) <= CUT * (1 + 1e-9)),
          what + ': saturated rows differ by more than the cut-off')


def expected_depth(tm, trans):
    R, Rs = tm.planet.fullRadius, tm.star.radius
    z, dz = tm.altitudeProfile, tm.deltaz
    return (R ** 2 + (2.0 * (R + z)[:, None] * (1 - trans) * dz[:, None]).sum(0)) / Rs ** 2


def examine(label, tm, wngrid=None, independent_geometry=True):
    """all the C03 relations for one built model"""
    wn, depth, trans, _ = tm.model(wngrid)
    trans = trans.copy()
    dl = path_lengths(tm) if independent_geometry else tm.path_length
    if independent_geometry:
        check(all(np.allclose(a, b, rtol=1e-9) for a, b in zip(dl, tm.path_length)),
              label + ': path lengths differ from shell geometry')
    exp = expected_all(tm, wn, dl)
    names = [c.name for c in tm.contribution_list]
    check(names == [c.name for c in sorted(tm.contribution_list, key=lambda c: c.order)],
          label + ': contribution list not ordered by .order')

    total_tau = sum(sum(comp.values()) for comp in exp.values())
    close_trans(trans, total_tau, label + ' full model')
    check(np.allclose(depth, expected_depth(tm, trans), rtol=1e-12),
          label + ': depth is not the integral of 1-transmittance')

    wn2, per_contrib = tm.model_contrib(wngrid)
    wn3, per_comp = tm.model_full_contrib(wngrid)
    check(np.array_equal(wn, wn2) and np.array_equal(wn, wn3), label + ': grids differ')
    check(list(per_contrib.keys()) == names, label + ': model_contrib keys %s' % list(per_contrib))
    check(list(per_comp.keys()) == names, label + ': model_full_contrib keys %s' % list(per_comp))
    check([c.name for c in tm.contribution_list] == names,
          label + ': contribution_list not restored')

    product = np.ones_like(trans)
    for cname in names:
        d_c, t_c, extra = per_contrib[cname]
        t_c = t_c.copy()
        check(extra is None, label + ': extra not None')
        close_trans(t_c, sum(exp[cname].values()) if exp[cname] else np.zeros_like(trans),
                    '%s contribution %s' % (label, cname))
        check(np.allclose(d_c, expected_depth(tm, t_c), rtol=1e-12),
              '%s %s: contribution depth' % (label, cname))
        product *= t_c
        comps = per_comp[cname]
        check([c[0] for c in comps] == list(exp[cname].keys()),
              '%s %s: components %s, expected %s' % (label, cname, [c[0] for c in comps],
                                                     list(exp[cname].keys())))
        comp_product = np.ones_like(trans)
        for cn, d_k, t_k, ex in comps:
            check(ex is None and len((cn, d_k, t_k, ex)) == 4, label + ': component tuple')
            if cn in exp[cname]:
                close_trans(t_k, exp[cname][cn], '%s component %s/%s' % (label, cname, cn))
            check(np.allclose(d_k, expected_depth(tm, t_k), rtol=1e-12),
                  '%s %s/%s: component depth' % (label, cname, cn))
            comp_product *= t_k
        # product over the components == the contribution (within the cut-off)
        check(np.all(np.abs(comp_product - t_c) <= 1e-9 * t_c + CUT * (1 + 1e-9)),
              '%s %s: product of components != contribution' % (label, cname))
        rows = sum(exp[cname].values()).min(axis=1) <= 10.0 if exp[cname] else slice(None)
        check(np.allclose(comp_product[rows], t_c[rows], rtol=1e-9, atol=1e-300),
              '%s %s: product of components != contribution (unsaturated rows)' % (label, cname))
    check(np.all(np.abs(product - trans) <= 1e-9 * trans + CUT * (1 + 1e-9)),
          label + ': product of contributions != full model')
    rows = total_tau.min(axis=1) <= 10.0
    check(np.allclose(product[rows], trans[rows], rtol=1e-9, atol=1e-300),
          label + ': product of contributions != full model (unsaturated rows)')

    # and the model is unchanged by having been taken apart
    again = tm.model(wngrid)[2]
    check(np.array_equal(again, trans), label + ': model() changed after model_*contrib')
    return wn, trans, per_contrib, per_comp


def std_contribs(kind):
    if kind == 'gas':
        return [AbsorptionContribution(), CIAContribution(cia_pairs=list(PAIRS)),
                RayleighContribution()]
    if kind == 'all':
        return [AbsorptionContribution(), CIAContribution(cia_pairs=list(PAIRS)),
                RayleighContribution(), SimpleCloudsContribution(clouds_pressure=3e4),
                FlatMieContribution(flat_mix_ratio=3e-29, flat_bottomP=1e4, flat_topP=1e1)]
    if kind == 'lee':   # (LeeMie and FlatMie share the name 'Mie': one at a time)
        return [RayleighContribution(), AbsorptionContribution(),
                LeeMieContribution(lee_mie_radius=0.05, lee_mie_q=30, lee_mie_mix_ratio=4e-9,
                                   lee_mie_bottomP=1e5, lee_mie_topP=1e0)]
    raise ValueError(kind)


GASES3 = [('H2O', 2e-4), ('CH4', 5e-5), ('CO2', 1e-4)]


def main():
    # 1. several atmospheres / compositions / subsets of sources -------------
    configs = [
        ('A: 3 gases, gas sources, isothermal', dict(gases=GASES3, contribs=std_contribs('gas'))),
        ('B: all sources, Guillot T-P, 13 layers',
         dict(gases=GASES3 + [('NH3', 3e-6)], contribs=std_contribs('all'), nlayers=13,
              temperature=Guillot2010(T_irr=1400.0))),
        ('C: one gas, absorption only', dict(gases=[('CH4', 1e-3)],
                                             contribs=[AbsorptionContribution()], nlayers=6)),
        ('D: CIA + Rayleigh, no absorber lines in the sum but H2O present',
         dict(gases=[('H2O', 1e-6)], contribs=[CIAContribution(cia_pairs=['H2-He']),
                                               RayleighContribution()], nlayers=7)),
        ('E: thick (saturating) atmosphere', dict(gases=[('H2O', 3e-2), ('CO2', 2e-2)],
                                                  contribs=std_contribs('gas'), pmax=1e7,
                                                  nlayers=10)),
    ]
    configs.append(('E2: Lee haze + gas', dict(gases=GASES3[:2], contribs=std_contribs('lee'),
                                                 nlayers=8)))
    for label, kw in configs:
        examine(label, make_model(**kw))

    # clipped wavenumber grid, and the alternative ray geometry
    tm = make_model(GASES3, std_contribs('gas'))
    examine('F: clipped grid', tm, wngrid=np.linspace(1500.0, 4200.0, 11))
    examine('G: new path method', make_model(GASES3, std_contribs('gas'), new_path=True),
            independent_geometry=False)

    # taking a model apart before it has ever been run as a whole
    tm = make_model(GASES3, std_contribs('all')[::-1], nlayers=7)
    first_wn, first = tm.model_full_contrib()
    first = {k: [(n, d.copy(), t.copy()) for n, d, t, _ in v] for k, v in first.items()}
    _, _, _, later = examine('J: decomposed first', tm)
    for cname, comps in later.items():
        check([c[0] for c in comps] == [c[0] for c in first[cname]] and
              all(np.array_equal(a[2], b[2]) and np.array_equal(a[1], b[1])
                  for a, b in zip(comps, first[cname])),
              'J: components of %s differ between first and later decomposition' % cname)

    # 2. order of insertion is irrelevant -----------------------------------
    ref = None
    for n, perm in enumerate(itertools.permutations(range(5))):
        if n % 17:            # a spread of 8 of the 120 orderings
            continue
        cs = std_contribs('all')
        tm = make_model(GASES3, [cs[i] for i in perm], nlayers=8)
        t = tm.model()[2].copy()
        check([c.order for c in tm.contribution_list] ==
              sorted(c.order for c in tm.contribution_list), 'order %s: not sorted' % (perm,))
        if ref is None:
            ref = t
        # identical where no layer saturates, within the cut-off elsewhere
        rows = ref.max(axis=1) >= CUT
        check(np.allclose(t[rows], ref[rows], rtol=1e-12, atol=1e-300) and
              np.all(np.abs(t - ref) <= CUT * (1 + 1e-9)),
              'insertion order %s changes result' % (perm,))
        pc = tm.model_contrib()[1]
        check(set(pc) == {'Absorption', 'CIA', 'Rayleigh', 'SimpleClouds', 'Mie'},
              'order %s: contribution names %s' % (perm, list(pc)))

    # 3. a species at zero abundance changes nothing -------------------------
    base = make_model(GASES3[:2], std_contribs('gas'))
    withzero = make_model(GASES3[:2] + [('CO2', 0.0)], std_contribs('gas'))
    w0, t0, pc0, pk0 = examine('H: base', base)
    w1, t1, pc1, pk1 = examine('I: with CO2 at zero', withzero)
    check(np.allclose(t0, t1, rtol=1e-13, atol=0), 'zero-abundance gas changes the transmittance')
    for cname in pc0:
        check(np.allclose(pc0[cname][1], pc1[cname][1], rtol=1e-13, atol=0),
              'zero-abundance gas changes contribution ' + cname)
    zero = [c for c in pk1['Absorption'] if c[0] == 'CO2']
    check(len(zero) == 1 and np.all(zero[0][2] == 1.0),
          'zero-abundance absorber component is not fully transparent')
    check('CO2' not in [c[0] for c in pk1['Rayleigh']], 'Rayleigh lists a zero-abundance gas')

    # 4. weighted opacity proportional to abundance --------------------------
    def sigmas(mix_h2o, mix_ch4):
        tm = make_model([('H2O', mix_h2o), ('CH4', mix_ch4)], std_contribs('gas'), nlayers=6)
        tm.model()
        out = {}
        for c in tm.contribution_list:
            for name, s in c.prepare_each(tm, WN):
                out[(c.name, name)] = np.array(s, copy=True)
            c.prepare(tm, WN)
            out[(c.name, None)] = np.array(c.sigma_xsec, copy=True)
            check(c.sigma is c.sigma_xsec, 'sigma property is not sigma_xsec')
        fill = {g: mix_of(tm, g).copy() for g in ('H2', 'He')}
        return out, fill
    s1, f1 = sigmas(1e-4, 2e-5)
    s2, f2 = sigmas(3e-4, 2e-5)
    check(np.allclose(s2[('Absorption', 'H2O')], 3 * s1[('Absorption', 'H2O')], rtol=1e-12),
          'absorption sigma not proportional to abundance')
    check(np.allclose(s2[('Absorption', 'CH4')], s1[('Absorption', 'CH4')], rtol=1e-12),
          'absorption sigma of an unchanged species moved')
    check(np.allclose(s2[('Rayleigh', 'H2O')], 3 * s1[('Rayleigh', 'H2O')], rtol=1e-12),
          'rayleigh sigma not proportional to abundance')
    r = (f2['H2'] * f2['He']) / (f1['H2'] * f1['He'])
    check(np.allclose(s2[('CIA', 'H2-He')], s1[('CIA', 'H2-He')] * r[:, None], rtol=1e-12),
          'CIA sigma not proportional to the product of both partners')
    r = (f2['H2'] / f1['H2']) ** 2
    check(np.allclose(s2[('CIA', 'H2-H2')], s1[('CIA', 'H2-H2')] * r[:, None], rtol=1e-12),
          'CIA H2-H2 sigma not proportional to x(H2)^2')
    for cname in ('Absorption', 'CIA', 'Rayleigh'):
        parts = sum(v for (c, n), v in s1.items() if c == cname and n is not None)
        check(np.allclose(s1[(cname, None)], parts, rtol=1e-13),
              cname + ': prepared sigma is not the sum of its components')

    # 5. the stored 'Contributions' output -----------------------------------
    from taurex.binning import SimpleBinner
    tm = make_model(GASES3, std_contribs('all'), nlayers=8)
    wn, depth, trans, _ = tm.model()
    bin_grid = np.linspace(800.0, 5200.0, 9)
    grid_keys = {'native_wngrid', 'native_wnwidth', 'native_wlgrid', 'native_wlwidth',
                 'binned_wngrid', 'binned_wnwidth', 'binned_wlgrid', 'binned_wlwidth'}
    for binner in (tm.defaultBinner(), SimpleBinner(bin_grid)):
        bname = type(binner).__name__
        stored = store_contributions(binner, tm)
        wn_c, pc = tm.model_contrib()
        wn_k, pk = tm.model_full_contrib()
        check(list(stored.keys()) == [c.name for c in tm.contribution_list],
              bname + ': stored keys')

        def same(stored_d, flux, tau, what, skip=()):
            want = binner.generate_spectrum_output((wn_c, flux, tau, None))
            want = {k: v for k, v in want.items() if k not in grid_keys}
            got = {k: v for k, v in stored_d.items() if k not in skip}
            check(set(got) == set(want) and len(want) >= 2,
                  '%s: keys %s, expected %s' % (what, sorted(got), sorted(want)))
            for k in want:
                check(k in got and np.array_equal(got[k], want[k]),
                      '%s: value of %s' % (what, k))
            check(np.array_equal(stored_d['native_spectrum'], flux) and
                  np.array_equal(stored_d['native_tau'], tau), what + ': native arrays')

        for cname, d in stored.items():
            comps = [k[0] for k in pk[cname]]
            check(all(c in d for c in comps), '%s stored[%s] lacks components' % (bname, cname))
            same(d, pc[cname][0], pc[cname][1], '%s stored[%s]' % (bname, cname), skip=comps)
            for cn, d_k, t_k, _ in pk[cname]:
                same(d[cn], d_k, t_k, '%s stored[%s][%s]' % (bname, cname, cn))

    # 6. k-table mode: the gases share the g-ordinates, sources still multiply -
    GlobalCache()['opacity_method'] = 'ktables'
    try:
        tm = make_model(GASES3[:2], std_contribs('gas'), nlayers=7)
        wn, depth, trans, _ = tm.model()
        dl = path_lengths(tm)
        T, P, n = tm.temperatureProfile, tm.pressureProfile, tm.nLayers
        ktau = np.zeros((n, wn.size, NG))
        for gas in tm.chemistry.activeGases:
            x = np.array([xsec_formula(MOLS.index(gas), T[l], P[l], wn) for l in range(n)])
            s = x[:, :, None] * KG[None, None, :] * mix_of(tm, gas)[:, None, None]
            for l in range(n):
                ktau[l] += (s[l:] * (tm.densityProfile[l:] * dl[l])[:, None, None]).sum(0)
        t_abs = (np.exp(-ktau) * KW).sum(-1)
        exp = expected_all(tm, wn, dl)
        other = sum(sum(c.values()) for k, c in exp.items() if k != 'Absorption')
        tau_total = -np.log(t_abs) + other
        close_trans(trans, tau_total, 'k-table full model', rtol=1e-8)
        pc = tm.model_contrib()[1]
        close_trans(pc['Absorption'][1], -np.log(t_abs), 'k-table absorption', rtol=1e-8)
        prod = pc['Absorption'][1] * pc['CIA'][1] * pc['Rayleigh'][1]
        check(np.all(np.abs(prod - trans) <= 1e-9 * trans + CUT * (1 + 1e-9)),
              'k-table: product of contributions != full model')
        pk = tm.model_full_contrib()[1]
        check([c[0] for c in pk['Absorption']] == list(tm.chemistry.activeGases),
              'k-table components')
        for cn, d_k, t_k, _ in pk['Absorption']:
            x = np.array([xsec_formula(MOLS.index(cn), T[l], P[l], wn) for l in range(n)])
            s = x[:, :, None] * KG[None, None, :] * mix_of(tm, cn)[:, None, None]
            kt = np.zeros((n, wn.size, NG))
            for l in range(n):
                kt[l] = (s[l:] * (tm.densityProfile[l:] * dl[l])[:, None, None]).sum(0)
            close_trans(t_k, -np.log((np.exp(-kt) * KW).sum(-1)),
                        'k-table component ' + cn, rtol=1e-8)
    finally:
        GlobalCache()['opacity_method'] = 'xsec'

    print('%d checks, %d failures' % (NCHECK[0], len(FAILURES)))
    return 1 if FAILURES else 0


if __name__ == '__main__':
    sys.exit(main())
