import os, sys; sys.path.insert(0, os.getcwd())
"""
Reviewer's demo for property C07.

"Retrieval set-up depends only on current settings; updates touch only fitted"

Only the public API is used (Optimizer.enable_fit/.../compile_params/
update_model, fit_names/fit_values/fit_boundaries/fitting_priors/
derived_names, model[name], obs[name], fittingParameters / derivedParameters,
ParameterParser.setup_optimizer), so the very same file runs against the
clean tree and against the refactored tree.

The expected result is computed by an independent, deliberately naive shadow
book-keeping ("Shadow" below) that only records the *current* settings, never
the history.
"""
import math
import random
import tempfile
import warnings

warnings.simplefilter('ignore')

import numpy as np
import taurex

assert os.path.realpath(taurex.__file__).startswith(
    os.path.realpath(os.getcwd()) + os.sep), taurex.__file__

from taurex.log import disableLogging
disableLogging()
import logging
logging.disable(logging.CRITICAL)       # expected-error messages are noise here

from taurex.core import fitparam, derivedparam, Fittable
from taurex.core.priors import (Uniform, LogUniform, Gaussian, LogGaussian,
                                PriorMode)
from taurex.model import ForwardModel, TransmissionModel
from taurex.optimizer import Optimizer
from taurex.optimizer.optimizer import compile_params as module_compile
from taurex.spectrum import BaseSpectrum

CHECKS = 0


def check(cond, msg):
    global CHECKS
    CHECKS += 1
    if not cond:
        print('FAIL:', msg)
        sys.exit(1)


def raises(exc, fn, *a):
    try:
        fn(*a)
    except exc:
        return True
    except Exception as e:      # wrong kind of error
        print('   unexpected', type(e), e)
        return False
    return False


# ---------------------------------------------------------------------------
# Test fixtures
# ---------------------------------------------------------------------------
class LineModel(ForwardModel):
    """y = m x + c, with a third parameter and two derived quantities"""

    def __init__(self):
        super().__init__('LineModel')
        self._m = 0.5
        self._c = 10.0
        self._k = 3.0
        self._x = np.linspace(1, 100, 20)

    @fitparam(param_name='c', param_latex='$c$', default_bounds=[1.0, 50.0])
    def c(self):
        return self._c

    @c.setter
    def c(self, value):
        self._c = value

    @fitparam(param_name='m', param_latex='$m$', default_fit=True,
              default_mode='log', default_bounds=[0.01, 100.0])
    def m(self):
        return self._m

    @m.setter
    def m(self, value):
        self._m = value

    @fitparam(param_name='k', default_bounds=[0.5, 9.0])
    def k(self):
        return self._k

    @k.setter
    def k(self, value):
        self._k = value

    @derivedparam(param_name='mplusc', param_latex='$m+c$', compute=True)
    def mplusc(self):
        return self._m + self._c

    @derivedparam(param_name='mtimesc', param_latex='$mc$')
    def mtimesc(self):
        return self._m * self._c

    def model(self, wngrid=None, cutoff_grid=True):
        if wngrid is None:
            wngrid = self._x
        return wngrid, self._m*wngrid + self._c, None, None

    def build(self):
        pass

    def initialize_profiles(self):
        pass


class Obs(BaseSpectrum):
    """An observation with its own fitting and derived parameters"""

    def __init__(self, N=15):
        super().__init__('Obs')
        self._offset = 40.0
        self._gain = 2.0
        self._x = np.linspace(1, 100, N)
        self._y = 0.5*self._x + 10.0
        self._yerr = np.full(N, 0.1)

    def create_binner(self):
        from taurex.binning import NativeBinner
        return NativeBinner()

    @property
    def spectrum(self):
        return self._y

    @property
    def wavenumberGrid(self):
        return self._x

    @property
    def errorBar(self):
        return self._yerr

    @fitparam(param_name='obs_offset', param_latex='$o$',
              default_bounds=[1.0, 100.0])
    def offset(self):
        return self._offset

    @offset.setter
    def offset(self, value):
        self._offset = value

    @fitparam(param_name='obs_gain', default_fit=True, default_mode='log',
              default_bounds=[0.1, 10.0])
    def gain(self):
        return self._gain

    @gain.setter
    def gain(self, value):
        self._gain = value

    @derivedparam(param_name='obs_sum', compute=False)
    def obssum(self):
        return self._offset + self._gain


# ---------------------------------------------------------------------------
# Independent shadow book-keeping: *current settings only*
# ---------------------------------------------------------------------------
class Shadow:

    def __init__(self, model, obs):
        self.model, self.obs = model, obs
        self.order = []         # (owner, name) in compile order
        self.fit, self.mode, self.bounds, self.latex = {}, {}, {}, {}
        for owner in (model, obs):
            for name, tup in owner.fittingParameters.items():
                check(type(tup) is tuple and len(tup) == 7,
                      'fitting entry is a plain 7-tuple')
                check(tup[0] == name, 'fitting entry carries its key')
                self.order.append((owner, name))
                self.latex[name] = tup[1]
                self.mode[name] = tup[4]
                self.fit[name] = tup[5]
                self.bounds[name] = tup[6]
        self.dorder, self.compute, self.dlatex = [], {}, {}
        for owner in (model, obs):
            for name, tup in owner.derivedParameters.items():
                check(type(tup) is tuple and len(tup) == 4,
                      'derived entry is a plain 4-tuple')
                self.dorder.append((owner, name))
                self.dlatex[name] = tup[1]
                self.compute[name] = tup[3]
        self.priors = {}

    def owner(self, name):
        for o, n in self.order:
            if n == name:
                return o
        raise KeyError(name)

    def snapshot(self):
        return {n: o[n] for o, n in self.order}

    def expected(self):
        names, values, bnds, pri_desc, latex = [], [], [], [], []
        raw = []
        for owner, n in self.order:
            if not self.fit[n]:
                continue
            raw.append(n)
            if n in self.priors:
                p = self.priors[n]
                desc = (type(p).__name__, p.params(), p.boundaries(), p)
            elif self.mode[n] == 'log':
                lo, hi = (math.log10(b) for b in self.bounds[n])
                lo, hi = min(lo, hi), max(lo, hi)
                p = None
                desc = ('LogUniform', f'Bounds = [{lo},{hi}]', (lo, hi), None)
            else:
                lo, hi = min(*self.bounds[n]), max(*self.bounds[n])
                p = None
                desc = ('Uniform', f'Bounds = [{lo},{hi}]', (lo, hi), None)
            is_log = desc[0].startswith('Log')
            v = owner[n]
            if is_log:
                names.append('log_' + n)
                latex.append('log({})'.format(self.latex[n]))
                values.append(math.log10(v))
                bnds.append((math.log10(self.bounds[n][0]),
                             math.log10(self.bounds[n][1])))
            else:
                names.append(n)
                latex.append(self.latex[n])
                values.append(v)
                bnds.append(self.bounds[n])
            pri_desc.append(desc)
        derived = [n for _, n in self.dorder if self.compute[n]]
        dlatex = [self.dlatex[n] for n in derived]
        return raw, names, latex, values, bnds, pri_desc, derived, dlatex


# two names of the planet model are two views of one number (semi-major axis)
ALIASES = {'planet_sma': 'planet_distance', 'planet_distance': 'planet_sma'}


def same_bounds(a, b):
    a, b = tuple(a), tuple(b)
    return len(a) == len(b) == 2 and a[0] == b[0] and a[1] == b[1]


def verify_compiled(opt, sh, tag):
    raw, names, latex, values, bnds, pri, derived, dlatex = sh.expected()
    check(opt.fit_names == names, f'{tag}: fit_names {opt.fit_names} != {names}')
    check(opt.fit_latex == latex, f'{tag}: fit_latex {opt.fit_latex} != {latex}')
    check(opt.fit_values == values,
          f'{tag}: fit_values {opt.fit_values} != {values}')
    check(opt.fit_values_nomode == [sh.owner(n)[n] for n in raw],
          f'{tag}: fit_values_nomode')
    got_b = opt.fit_boundaries
    check(len(got_b) == len(bnds) and
          all(same_bounds(g, e) for g, e in zip(got_b, bnds)),
          f'{tag}: fit_boundaries {got_b} != {bnds}')
    check(len(opt.fitting_priors) == len(pri), f'{tag}: number of priors')
    check(len(opt.fitting_parameters) == len(raw), f'{tag}: number of params')
    for p, tup, (kind, params, bb, ident), n in zip(opt.fitting_priors,
                                                   opt.fitting_parameters,
                                                   pri, raw):
        check(type(p).__name__ == kind, f'{tag}: prior kind of {n}: '
              f'{type(p).__name__} != {kind}')
        check(p.params() == params, f'{tag}: prior params of {n}: '
              f'{p.params()} != {params}')
        check(tuple(p.boundaries()) == tuple(bb), f'{tag}: prior bounds {n}')
        if ident is not None:
            check(p is ident, f'{tag}: user prior object of {n} is used')
        # the compiled entry is the current public 7-tuple of that parameter
        check(type(tup) is tuple and len(tup) == 7 and tup[0] == n,
              f'{tag}: compiled entry of {n}')
        check(tup == sh.owner(n).fittingParameters[n],
              f'{tag}: compiled entry equals current settings of {n}')
        check(tup[4] == sh.mode[n] and tup[5] is True and
              same_bounds(tup[6], sh.bounds[n]), f'{tag}: entry content {n}')
    check(opt.derived_names == derived,
          f'{tag}: derived_names {opt.derived_names} != {derived}')
    check(opt.derived_latex == dlatex, f'{tag}: derived_latex')

    # the public settings dictionaries say the same as the shadow
    for owner, n in sh.order:
        t = owner.fittingParameters[n]
        check(type(t) is tuple and t[0] == n and t[1] == sh.latex[n] and
              t[4] == sh.mode[n] and t[5] == sh.fit[n] and
              same_bounds(t[6], sh.bounds[n]),
              f'{tag}: public settings of {n}: {t}')
    for owner, n in sh.dorder:
        t = owner.derivedParameters[n]
        check(type(t) is tuple and t[0] == n and t[3] == sh.compute[n],
              f'{tag}: public derived settings of {n}: {t}')

    # writing the reported values back changes nothing
    before = sh.snapshot()
    opt.update_model(opt.fit_values)
    after = sh.snapshot()
    for n in before:
        if n in raw:
            check(math.isclose(after[n], before[n], rel_tol=1e-12),
                  f'{tag}: write-back moved fitted {n}')
        elif ALIASES.get(n) not in raw:
            check(after[n] == before[n] and type(after[n]) is type(before[n]),
                  f'{tag}: write-back touched non-fitted {n}')
    check(opt.fit_names == names, f'{tag}: names stable after write-back')
    return raw, pri


def verify_update(opt, sh, rng, raw, pri, tag):
    before = sh.snapshot()
    vec, expect = [], {}
    for n, (kind, _, bb, _) in zip(raw, pri):
        lo, hi = bb
        x = lo + (hi - lo)*rng.random()
        vec.append(x)
        expect[n] = 10**x if kind.startswith('Log') else x
    # list and ndarray inputs behave the same
    opt.update_model(vec if rng.random() < 0.5 else np.array(vec))
    after = sh.snapshot()
    for n in before:
        if n in raw:
            # (rel_tol: some setters/getters convert units, e.g. R_jup <-> m)
            check(math.isclose(after[n], expect[n], rel_tol=1e-13),
                  f'{tag}: update_model {n}: {after[n]} != {expect[n]}')
        elif ALIASES.get(n) not in raw:
            check(after[n] == before[n],
                  f'{tag}: update_model touched non-fitted {n}')
    # reported values follow
    exp_vals = sh.expected()[3]
    check(opt.fit_values == exp_vals, f'{tag}: fit_values after update')
    # wrong length is an error and changes nothing
    snap = sh.snapshot()
    check(raises(ValueError, opt.update_model, list(vec) + [1.0]),
          f'{tag}: too long vector is rejected')
    if vec:
        check(raises(ValueError, opt.update_model, vec[:-1]),
              f'{tag}: too short vector is rejected')
    check(sh.snapshot() == snap, f'{tag}: rejected update changed something')


def random_bounds(rng):
    lo = 10**rng.uniform(-3, 1)
    hi = lo*10**rng.uniform(0.1, 3)
    return [lo, hi] if rng.random() < 0.5 else (lo, hi)


def random_prior(rng):
    k = rng.randrange(4)
    if k == 0:
        return Uniform(bounds=[rng.uniform(0.1, 1), rng.uniform(2, 50)])
    if k == 1:
        return LogUniform(bounds=[rng.uniform(-4, -1), rng.uniform(0, 2)])
    if k == 2:
        return Gaussian(mean=rng.uniform(1, 5), std=rng.uniform(0.1, 1))
    return LogGaussian(mean=rng.uniform(-1, 1), std=rng.uniform(0.1, 0.5))


def unknown_names_are_errors(opt, sh, tag):
    snap = sh.snapshot()
    pub = {id(o): dict(o.fittingParameters) for o in (sh.model, sh.obs)}
    dpub = {id(o): dict(o.derivedParameters) for o in (sh.model, sh.obs)}
    for fn, args in ((opt.enable_fit, ('no_such',)),
                     (opt.disable_fit, ('no_such',)),
                     (opt.set_boundary, ('no_such', [1, 2])),
                     (opt.set_factor_boundary, ('no_such', [0.5, 2])),
                     (opt.set_mode, ('no_such', 'log')),
                     (opt.enable_derived, ('no_such',)),
                     (opt.disable_derived, ('no_such',))):
        check(raises(KeyError, fn, *args), f'{tag}: {fn.__name__} unknown')
    check(raises(ValueError, opt.set_prior, 'no_such', Uniform()),
          f'{tag}: set_prior unknown name')
    known = sh.order[0][1]
    check(raises(ValueError, opt.set_mode, known, 'cubic'),
          f'{tag}: set_mode bad mode')
    check(raises(KeyError, lambda: sh.model['no_such']), f'{tag}: model[...]')
    check(raises(KeyError, lambda: sh.obs['no_such']), f'{tag}: obs[...]')
    check(sh.snapshot() == snap, f'{tag}: failed calls changed values')
    for o in (sh.model, sh.obs):
        check(dict(o.fittingParameters) == pub[id(o)],
              f'{tag}: failed calls changed settings')
        check(dict(o.derivedParameters) == dpub[id(o)],
              f'{tag}: failed calls changed derived settings')


def random_history(make_model, seed, steps, tag):
    rng = random.Random(seed)
    model, obs = make_model(), Obs()
    opt = Optimizer('demo', observed=obs, model=model)
    sh = Shadow(model, obs)
    names = [n for _, n in sh.order if n != 'planet_sma']
    dnames = [n for _, n in sh.dorder]
    check(opt.fit_names == [] and opt.fitting_priors == [],
          f'{tag}: nothing compiled yet')
    compiles = 0
    for step in range(steps):
        op = rng.randrange(10)
        n = rng.choice(names)
        if op == 0:
            opt.enable_fit(n)
            sh.fit[n] = True
        elif op == 1:
            opt.disable_fit(n)
            sh.fit[n] = False
        elif op == 2:
            mode = rng.choice(['log', 'linear'])
            spelled = rng.choice([mode, mode.upper(), mode.capitalize()])
            opt.set_mode(n, spelled)
            sh.mode[n] = mode
        elif op == 3:
            b = random_bounds(rng)
            opt.set_boundary(n, b)
            sh.bounds[n] = b
            check(sh.owner(n).fittingParameters[n][6] is b,
                  f'{tag}: boundary object stored as given')
        elif op == 4:
            f = (rng.uniform(0.1, 0.9), rng.uniform(1.1, 5))
            v = sh.owner(n)[n]
            opt.set_factor_boundary(n, f)
            sh.bounds[n] = (f[0]*v, f[1]*v)
        elif op == 5:
            p = random_prior(rng)
            opt.set_prior(n, p)
            sh.priors[n] = p
        elif op == 6 and dnames:
            d = rng.choice(dnames)
            opt.enable_derived(d)
            sh.compute[d] = True
        elif op == 7 and dnames:
            d = rng.choice(dnames)
            opt.disable_derived(d)
            sh.compute[d] = False
        else:
            opt.compile_params()
            compiles += 1
            t = f'{tag}/step{step}'
            raw, pri = verify_compiled(opt, sh, t)
            if rng.random() < 0.7:
                verify_update(opt, sh, rng, raw, pri, t)
            if rng.random() < 0.3:
                # compiling again without changing anything gives the same
                opt.compile_params()
                verify_compiled(opt, sh, t + '/again')
            if rng.random() < 0.2:
                unknown_names_are_errors(opt, sh, t)
    opt.compile_params()
    raw, pri = verify_compiled(opt, sh, tag + '/final')
    verify_update(opt, sh, rng, raw, pri, tag + '/final')
    unknown_names_are_errors(opt, sh, tag + '/final')
    return compiles


# ---------------------------------------------------------------------------
# 1. random histories, toy model and a real (built) transmission model
# ---------------------------------------------------------------------------
def make_transmission():
    tm = TransmissionModel(nlayers=5)
    tm.build()
    return tm


total = 0
for seed in range(12):
    total += random_history(LineModel, 1000 + seed, 120, f'line{seed}')
for seed in range(4):
    total += random_history(make_transmission, 2000 + seed, 150, f'tm{seed}')
check(total > 100, 'histories reached many compilations')

# ---------------------------------------------------------------------------
# 2. two histories that end in the same settings give the same set-up
# ---------------------------------------------------------------------------


def describe(opt):
    return (opt.fit_names, opt.fit_latex, opt.fit_values,
            [tuple(b) for b in opt.fit_boundaries],
            [(type(p).__name__, p.params()) for p in opt.fitting_priors],
            opt.derived_names)


def direct():
    m, o = LineModel(), Obs()
    opt = Optimizer('direct', observed=o, model=m)
    opt.disable_fit('m')
    opt.enable_fit('c')
    opt.set_mode('c', 'log')
    opt.set_boundary('c', [2.0, 200.0])
    opt.enable_fit('obs_offset')
    opt.set_prior('obs_offset', LogGaussian(mean=1.5, std=0.2))
    opt.disable_derived('mplusc')
    opt.enable_derived('obs_sum')
    opt.compile_params()
    return describe(opt)


def winding():
    m, o = LineModel(), Obs()
    opt = Optimizer('winding', observed=o, model=m)
    opt.compile_params()                       # compiled with the defaults
    opt.enable_fit('c')
    opt.enable_fit('k')
    opt.set_boundary('c', [5.0, 6.0])
    opt.compile_params()                       # default priors are built ...
    opt.set_mode('c', 'LOG')
    opt.set_boundary('c', [2.0, 200.0])        # ... and must not be kept
    opt.disable_fit('k')
    opt.disable_fit('m')
    opt.set_prior('obs_offset', Uniform(bounds=[3, 4]))
    opt.enable_fit('obs_offset')
    opt.enable_derived('mtimesc')
    opt.compile_params()
    opt.set_prior('obs_offset', LogGaussian(mean=1.5, std=0.2))
    opt.disable_derived('mtimesc')
    opt.disable_derived('mplusc')
    opt.enable_derived('obs_sum')
    opt.compile_params()
    return describe(opt)


d, w = direct(), winding()
check(d == w, f'history dependence:\n {d}\n {w}')
check(d[0] == ['log_c', 'log_obs_offset', 'log_obs_gain'], f'names {d[0]}')
check(d[2] == [1.0, math.log10(40.0), math.log10(2.0)], f'values {d[2]}')
check(d[3][0] == (math.log10(2.0), math.log10(200.0)), f'bounds {d[3]}')
check(d[4][0] == ('LogUniform',
                  f'Bounds = [{math.log10(2.0)},{math.log10(200.0)}]'),
      f'prior {d[4]}')
check(d[5] == ['obs_sum'], f'derived {d[5]}')

# ---------------------------------------------------------------------------
# 3. the module level compile_params keeps its contract
# ---------------------------------------------------------------------------
m, o = LineModel(), Obs()
fit, pri, table, der = module_compile(m.fittingParameters,
                                      m.derivedParameters)
check([t[0] for t in fit] == ['m'] and [type(p) for p in pri] == [LogUniform],
      'module compile_params: defaults')
check(isinstance(table, dict) and list(table) == ['m'] and table['m'] is pri[0],
      'module compile_params: prior table')
check([t[0] for t in der] == ['mplusc'], 'module compile_params: derived')
mine = Gaussian(mean=1.0, std=0.1)
given = {'m': mine}
fit, pri, table, der = module_compile(m.fittingParameters,
                                      m.derivedParameters, given)
check(pri == [mine] and table is given and table == {'m': mine},
      'module compile_params: supplied priors win and the table is returned')
fit, pri, table, der = module_compile(o.fittingParameters,
                                      o.derivedParameters, given)
check([t[0] for t in fit] == ['obs_gain'] and table is given and
      list(given) == ['m', 'obs_gain'] and given['obs_gain'] is pri[0] and
      der == [], 'module compile_params: table is extended in place')

# ---------------------------------------------------------------------------
# 4. collection order of a composite model, computed independently
# ---------------------------------------------------------------------------
from taurex.contributions import RayleighContribution, SimpleCloudsContribution
from taurex.chemistry import TaurexChemistry, ConstantGas
from taurex.temperature import Guillot2010
from taurex.planet import Planet
from taurex.stellar import BlackbodyStar

chem = TaurexChemistry(fill_gases=['H2', 'He'], ratio=0.17)
chem.addGas(ConstantGas('CO2', mix_ratio=1e-4))
chem.addGas(ConstantGas('H2O', mix_ratio=1e-3))
planet, star, temp = Planet(planet_radius=1.2), BlackbodyStar(5000), Guillot2010()
tm = TransmissionModel(planet=planet, star=star, temperature_profile=temp,
                       chemistry=chem, nlayers=6)
tm.add_contribution(SimpleCloudsContribution(clouds_pressure=100.0))
tm.add_contribution(RayleighContribution())
own_before = list(tm.fitting_parameters())
tm.build()
parts = [tm, planet, star, tm.pressure, temp, chem] + \
    sorted(tm.contribution_list, key=lambda c: c.order)
exp_fit, exp_der = {}, {}
for part in parts:
    exp_fit.update(part.fitting_parameters())
    exp_der.update(part.derived_parameters())
check(list(tm.fittingParameters) == list(exp_fit),
      f'collection order {list(tm.fittingParameters)} != {list(exp_fit)}')
check(dict(tm.fittingParameters) == exp_fit, 'collected fitting entries')
check(list(tm.derivedParameters) == list(exp_der) and
      dict(tm.derivedParameters) == exp_der, 'collected derived entries')
for need in ('planet_radius', 'T_irr', 'CO2', 'H2O', 'He_H2',
             'clouds_pressure', 'atm_min_pressure'):
    check(need in tm.fittingParameters, f'{need} collected')
check(tm.fittingParameters is tm.fittingParameters,
      'the collected dictionary is one shared object')
# item access goes to the components
tm['planet_radius'] = 1.5
check(planet.radius == 1.5*planet['planet_radius']/tm['planet_radius'] and
      planet['planet_radius'] == 1.5 and tm['planet_radius'] == 1.5,
      'model[...] writes through to the planet')
tm['CO2'] = 2e-4
check(chem.fitting_parameters()['CO2'][2]() == 2e-4 and tm['CO2'] == 2e-4, 'model[...] reaches the gas')
check(raises(KeyError, lambda: tm['T']), 'isothermal T is not in this model')

# a model that never re-collects hands out its own registry; a rebuild
# collects afresh from the components (whose own entries were never changed)
lm = LineModel()
check(lm.fittingParameters is lm.fitting_parameters() and
      lm.derivedParameters is lm.derived_parameters(),
      'plain ForwardModel: collected dictionaries are its own')
opt4 = Optimizer('rebuild', observed=Obs(), model=tm)
opt4.enable_fit('planet_mass')
opt4.set_boundary('planet_mass', [0.2, 4.0])
opt4.set_mode('planet_mass', 'log')
first = tm.fittingParameters
check(first['planet_mass'][4:] == ('log', True, [0.2, 4.0]) and
      planet.fitting_parameters()['planet_mass'][4:6] == ('linear', False),
      'settings live in the collected dictionary of the model')
tm.build()
check(tm.fittingParameters is not first and
      list(tm.fittingParameters) == list(exp_fit) and
      tm.fittingParameters['planet_mass'] ==
      planet.fitting_parameters()['planet_mass'] and
      tm.fittingParameters['planet_mass'][5] is False,
      'a rebuild collects the component entries again')


class Base(Fittable):
    def __init__(self):
        self._a, self._b = 1.0, 2.0
        super().__init__()

    @fitparam(param_name='a', default_bounds=[0, 5])
    def a(self):
        return self._a

    @a.setter
    def a(self, value):
        self._a = value

    @derivedparam(param_name='twice_a', compute=True)
    def twice_a(self):
        return 2*self._a


class Child(Base):
    @fitparam(param_name='b', param_latex='$b$', default_mode='log',
              default_fit=True, default_bounds=[1, 50])
    def b(self):
        return self._b

    @b.setter
    def b(self, value):
        self._b = value


class Clash(Base):
    @fitparam(param_name='a')
    def other_a(self):
        return 0.0

    @other_a.setter
    def other_a(self, value):
        pass


kid = Child()
check(list(kid.fitting_parameters()) == ['b', 'a'] and
      list(kid.derived_parameters()) == ['twice_a'],
      f'subclass first, then bases: {list(kid.fitting_parameters())}')
tb = kid.fitting_parameters()['b']
check(tb[:2] == ('b', '$b$') and tb[4:] == ('log', True, [1, 50]) and
      tb[2]() == 2.0 and kid.fitting_parameters()['a'][1] == 'a',
      f'entry made from the decorator arguments {tb}')
kid['b'] = 7.0
check(kid.b == 7.0 and kid['b'] == 7.0 and tb[2]() == 7.0, 'bound accessors')
td = kid.derived_parameters()['twice_a']
check(type(td) is tuple and td[:2] == ('twice_a', 'twice_a') and
      td[2]() == 2.0 and td[3] is True, f'derived entry {td}')
check(raises(AttributeError, Clash), 'a clashing name in a subclass is refused')
check(raises(KeyError, kid.modify_bounds, 'nope', [0, 1]),
      'modify_bounds on an unknown name')

# Fittable on its own
comp = Planet()
check(raises(AttributeError, comp.add_fittable_param, 'planet_mass', 'x',
             lambda s: 1, lambda s, v: None, 'linear', False, [0, 1]),
      'duplicate fitting parameter name is rejected')
comp.modify_bounds('planet_mass', [0.2, 7.0])
t = comp.fitting_parameters()['planet_mass']
check(type(t) is tuple and len(t) == 7 and t[0] == 'planet_mass' and
      t[6] == [0.2, 7.0] and t[4] == 'linear' and t[5] is False,
      f'modify_bounds {t}')
check(comp.fitting_parameters() is comp.fitting_parameters() and
      comp.derived_parameters() is comp.derived_parameters(),
      'Fittable hands out its own dictionaries')
check([p.fget.param_name for p in comp.find_fitparams()] ==
      list(comp.fitting_parameters()), 'find_fitparams order')
check([p.fget.param_name for p in comp.find_derivedparams()] ==
      list(comp.derived_parameters()), 'find_derivedparams order')

# mixins keep the parameters of both sides
from taurex.mixin import enhance_class
from taurex.mixin.mixins import TempScaler
from taurex.temperature import Isothermal
mixed = enhance_class(Isothermal, TempScaler, T=1200.0, scale_factor=2.0)
check(sorted(mixed.fitting_parameters()) == ['T', 'T_scale'],
      f'mixin parameters {list(mixed.fitting_parameters())}')
check(mixed['T'] == 1200.0 and mixed['T_scale'] == 2.0, 'mixin values')
mixed['T_scale'] = 3.0
check(mixed['T_scale'] == 3.0 and mixed.scaleFactor == 3.0, 'mixin setter')

# ---------------------------------------------------------------------------
# 5. set-up through the input file parser equals set-up by hand
# ---------------------------------------------------------------------------
from taurex.parameter import ParameterParser

PAR = """
[Fitting]
planet_radius:fit = True
planet_radius:bounds = 0.5, 2.0
T:fit = True
T:mode = LOG
T:factor = 0.5, 2.0
H2O:fit = True
H2O:prior = "LogUniform(bounds=(-12,-1))"
CH4:fit = True
CH4:mode = linear
CH4:bounds = 1e-8, 1e-3
planet_mass:bounds = 0.1, 3.0
obs_gain:fit = False
obs_offset:fit = True
obs_offset:factor = 0.5, 1.5
obs_offset:bounds = 10.0, 80.0
[Derive]
mu:compute = True
logg:compute = False
obs_sum:compute = True
"""
with tempfile.TemporaryDirectory() as tmp:
    fn = os.path.join(tmp, 'demo.par')
    with open(fn, 'w') as f:
        f.write(PAR)
    pp = ParameterParser()
    pp.read(fn)
    gen = pp.generate_fitting_parameters()
    check(list(gen) == ['planet_radius', 'T', 'H2O', 'CH4', 'planet_mass',
                        'obs_gain', 'obs_offset'], f'parser keys {list(gen)}')
    check(all(list(v) == ['fit', 'bounds', 'mode', 'factor', 'prior']
              for v in gen.values()), 'parser entry keys')
    check(gen['T'] == {'fit': True, 'bounds': None, 'mode': 'LOG',
                       'factor': [0.5, 2.0], 'prior': None}, f"T {gen['T']}")
    check(gen['planet_mass'] == {'fit': False, 'bounds': [0.1, 3.0],
                                 'mode': None, 'factor': None, 'prior': None},
          'planet_mass entry')
    check(isinstance(gen['H2O']['prior'], LogUniform) and
          gen['H2O']['prior'].boundaries() == (-12, -1), 'H2O prior')
    check(pp.generate_derived_parameters() ==
          {'mu': {'compute': True}, 'logg': {'compute': False},
           'obs_sum': {'compute': True}}, 'parser derived')

    tm1, ob1 = make_transmission(), Obs()
    o1 = Optimizer('parsed', observed=ob1, model=tm1)
    o1.enable_derived('logg')
    o1.compile_params()                  # an earlier compilation
    pp.setup_optimizer(o1)
    o1.compile_params()

    tm2, ob2 = make_transmission(), Obs()
    o2 = Optimizer('by-hand', observed=ob2, model=tm2)
    o2.enable_fit('planet_radius'); o2.set_boundary('planet_radius', [0.5, 2.0])
    o2.enable_fit('T'); o2.set_mode('T', 'log')
    o2.set_boundary('T', (0.5*1500, 2.0*1500))
    o2.enable_fit('H2O'); o2.set_prior('H2O', LogUniform(bounds=(-12, -1)))
    o2.enable_fit('CH4'); o2.set_mode('CH4', 'linear')
    o2.set_boundary('CH4', [1e-8, 1e-3])
    o2.set_boundary('planet_mass', [0.1, 3.0])
    o2.disable_fit('obs_gain')
    o2.enable_fit('obs_offset'); o2.set_boundary('obs_offset', [10.0, 80.0])
    o2.enable_derived('mu'); o2.enable_derived('obs_sum')
    o2.compile_params()
    check(describe(o1) == describe(o2),
          f'parser set-up\n {describe(o1)}\n {describe(o2)}')
    check(o1.fit_names == ['planet_radius', 'log_T', 'log_H2O', 'CH4',
                           'obs_offset'], f'parser names {o1.fit_names}')
    check(o1.derived_names == ['mu', 'obs_sum'], f'{o1.derived_names}')
    check(tm1.fittingParameters['planet_mass'][5:] == (False, [0.1, 3.0]),
          'bounds of a parameter that is not fitted are still recorded')

print(f'C07 demo: {CHECKS} checks passed on {os.path.dirname(taurex.__file__)}')
sys.exit(0)
