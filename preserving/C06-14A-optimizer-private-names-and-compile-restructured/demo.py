import os, sys; sys.path.insert(0, os.getcwd())
"""
Reviewer's demo for property C06: every wrapped sampler (nestle, MultiNest,
PolyChord) is handed

    logL(u) = -sum(log(sigma*sqrt(2 pi))) - chi^2/2

with chi^2 computed from the forward model evaluated at exactly the
prior-transformed parameters and binned to the observation, the prior callback
maps the unit cube through each parameter's prior in fit_names order, and
invalid atmospheres neither raise nor give a finite likelihood.

Only the public API of TauREx is used, so the same file runs on the tree
before and after the refactoring.  Everything the optimizer computes is
compared against an independent calculation done here with plain numpy on a
*separate* model instance.  A digest of every number the callbacks returned
is printed at the end so the two trees can also be compared bit for bit.
"""
import warnings
warnings.simplefilter('ignore')   # SyntaxWarnings of untouched modules

import ctypes
import hashlib
import math
import types

import numpy as np
import scipy.stats

# --------------------------------------------------------------------------
# in-process stand-ins for the samplers that are not installed
# --------------------------------------------------------------------------


class Captured(Exception):
    """Raised by the recording doubles to leave compute_fit once the
    callbacks have been handed over"""


CAPTURE = {}


def _fake_multinest_run(**kwargs):
    CAPTURE['multinest'] = kwargs
    raise Captured()


class _FakeSettings:
    def __init__(self, ndims, nderived):
        self.nDims = ndims
        self.nDerived = nderived


def _fake_run_polychord(*args, **kwargs):
    CAPTURE['polychord'] = (args, kwargs)
    raise Captured()


pymultinest = types.ModuleType('pymultinest')
pymultinest.run = _fake_multinest_run
pymultinest.Analyzer = None
sys.modules['pymultinest'] = pymultinest

pypolychord = types.ModuleType('pypolychord')
pypolychord.run_polychord = _fake_run_polychord
pp_settings = types.ModuleType('pypolychord.settings')
pp_settings.PolyChordSettings = _FakeSettings
pp_priors = types.ModuleType('pypolychord.priors')
pp_priors.UniformPrior = object
pypolychord.settings = pp_settings
pypolychord.priors = pp_priors
sys.modules['pypolychord'] = pypolychord
sys.modules['pypolychord.settings'] = pp_settings
sys.modules['pypolychord.priors'] = pp_priors

import taurex  # noqa: E402
assert os.path.abspath(taurex.__file__).startswith(os.getcwd()), taurex.__file__

import logging  # noqa: E402
import taurex.log  # noqa: E402
logging.getLogger('taurex').handlers = [logging.NullHandler()]

import nestle  # noqa: E402
from taurex.model import ForwardModel  # noqa: E402
from taurex.core import fitparam, derivedparam  # noqa: E402
from taurex.spectrum import BaseSpectrum  # noqa: E402
from taurex.data.spectrum.array import ArraySpectrum  # noqa: E402
from taurex.binning import Binner, NativeBinner, FluxBinner  # noqa: E402
from taurex.exceptions import InvalidModelException  # noqa: E402
from taurex.core.priors import Uniform, LogUniform, Gaussian, LogGaussian, \
    PriorMode  # noqa: E402
from taurex.optimizer import Optimizer, NestleOptimizer  # noqa: E402
from taurex.optimizer.multinest import MultiNestOptimizer  # noqa: E402
from taurex.optimizer.polychord import PolyChordOptimizer  # noqa: E402

REAL_NESTLE_SAMPLE = nestle.sample
DIGEST = hashlib.sha256()
NCHECK = [0]


def record(*values):
    for v in values:
        DIGEST.update(np.ascontiguousarray(np.asarray(v, dtype=np.float64))
                      .tobytes())


def check(cond, msg):
    NCHECK[0] += 1
    if not cond:
        print('FAILED:', msg)
        sys.exit(1)


def same(a, b):
    """bit-for-bit equality that treats nan == nan"""
    return np.array_equal(np.asarray(a, dtype=float),
                          np.asarray(b, dtype=float), equal_nan=True)


# --------------------------------------------------------------------------
# a small synthetic atmosphere: 2 temperature nodes, one absorber, a slope
# --------------------------------------------------------------------------

NATIVE = np.linspace(400.0, 4000.0, 361)


def spectrum_of(t_bot, t_top, mix, radius, grid):
    """the physics, as a free function so the independent calculation does
    not go through any TauREx object"""
    x = (grid-2200.0)/300.0
    band = np.exp(-0.5*x*x)
    scale = 1e-3*(t_bot+t_top)/2000.0
    return radius**2*1e-2 + scale*np.log10(mix*1e6+1.0)*band \
        + 1e-7*(t_bot-t_top)*grid/1000.0


class ToyAtmosphere(ForwardModel):

    def __init__(self, cut_to_request=False):
        super().__init__('ToyAtmosphere')
        self._t_bot = 1500.0
        self._t_top = 800.0
        self._mix = 1e-4
        self._radius = 1.0
        self._cut = cut_to_request
        self.calls = []

    @fitparam(param_name='T_bottom', param_latex='$T_b$',
              default_fit=False, default_bounds=[500.0, 3000.0])
    def tBottom(self):
        return self._t_bot

    @tBottom.setter
    def tBottom(self, value):
        self._t_bot = value

    @fitparam(param_name='T_top', param_latex='$T_t$',
              default_fit=False, default_bounds=[200.0, 2500.0])
    def tTop(self):
        return self._t_top

    @tTop.setter
    def tTop(self, value):
        self._t_top = value

    @fitparam(param_name='H2O', param_latex='H$_2$O', default_mode='log',
              default_fit=False, default_bounds=[1e-12, 1e2])
    def mix(self):
        return self._mix

    @mix.setter
    def mix(self, value):
        self._mix = value

    @fitparam(param_name='planet_radius', param_latex='$R_p$',
              default_fit=False, default_bounds=[0.5, 1.7])
    def radius(self):
        return self._radius

    @radius.setter
    def radius(self, value):
        self._radius = value

    @derivedparam(param_name='t_mean', param_latex='$<T>$', compute=False)
    def tMean(self):
        return 0.5*(self._t_bot+self._t_top)

    def build(self):
        pass

    def initialize_profiles(self):
        pass

    def state(self):
        return (self._t_bot, self._t_top, self._mix, self._radius)

    def model(self, wngrid=None, cutoff_grid=True):
        self.calls.append((self.state(), wngrid))
        if self._mix > 1.0:
            raise InvalidModelException('mixing ratio above unity')
        if self._t_top > self._t_bot:
            raise InvalidModelException('inverted temperature nodes')
        grid = NATIVE
        if self._cut and wngrid is not None:
            grid = np.asarray(wngrid)
        return grid, spectrum_of(*self.state(), grid), None, None


def is_valid(state):
    t_bot, t_top, mix, _ = state
    return mix <= 1.0 and t_top <= t_bot


class BlockBinner(Binner):
    """averages consecutive blocks of native points (sizes given)"""

    def __init__(self, sizes):
        super().__init__()
        self._sizes = list(sizes)

    def bindown(self, wngrid, spectrum, grid_width=None, error=None):
        edges = np.cumsum([0]+self._sizes)
        wn = np.array([wngrid[a:b].mean()
                       for a, b in zip(edges[:-1], edges[1:])])
        sp = np.array([spectrum[a:b].mean()
                       for a, b in zip(edges[:-1], edges[1:])])
        return wn, sp, None, None

    def generate_spectrum_output(self, model_output, output_size=None):
        wngrid, flux, _, _ = model_output
        return {'native_wngrid': wngrid, 'native_spectrum': flux,
                'binned_spectrum': self.bindown(wngrid, flux)[1]}


class BlockObservation(BaseSpectrum):
    """irregular bins, heteroscedastic errors, and a fitted offset of its own
    that moves the data (so the chi^2 must read the data *after* the update)"""

    def __init__(self, sizes, rng):
        super().__init__('BlockObservation')
        self.sizes = list(sizes)
        edges = np.cumsum([0]+self.sizes)
        self._wn = np.array([NATIVE[a:b].mean()
                             for a, b in zip(edges[:-1], edges[1:])])
        truth = spectrum_of(1400.0, 900.0, 3e-4, 1.1, NATIVE)
        self._base = np.array([truth[a:b].mean()
                               for a, b in zip(edges[:-1], edges[1:])])
        self._err = 2e-5*(1.0+3.0*rng.random(len(self.sizes)))
        self._base = self._base + self._err*rng.standard_normal(len(self._err))
        self._offset = 0.0

    def create_binner(self):
        return BlockBinner(self.sizes)

    @fitparam(param_name='obs_offset', param_latex='$\\delta$',
              default_fit=False, default_bounds=[-1e-4, 3e-4])
    def offset(self):
        return self._offset

    @offset.setter
    def offset(self, value):
        self._offset = value

    @property
    def spectrum(self):
        return self._base + self._offset

    @property
    def wavenumberGrid(self):
        return self._wn

    @property
    def errorBar(self):
        return self._err


class NativeObservation(BaseSpectrum):
    """observation on a grid of its own; the model answers on that grid"""

    def __init__(self, rng, n=23):
        super().__init__('NativeObservation')
        self._wn = np.sort(rng.uniform(500.0, 3900.0, n))
        self._y = spectrum_of(1700.0, 600.0, 2e-5, 0.9, self._wn)
        self._err = 1e-5*(0.5+rng.random(n))
        self._y = self._y + self._err*rng.standard_normal(n)

    def create_binner(self):
        return NativeBinner()

    @property
    def spectrum(self):
        return self._y

    @property
    def wavenumberGrid(self):
        return self._wn

    @property
    def errorBar(self):
        return self._err


def array_observation(rng, nbins=17):
    """the stock ArraySpectrum (-> FluxBinner) with explicit, unequal,
    non-contiguous bin widths, rows given in shuffled order"""
    wl = np.sort(rng.uniform(2.7, 20.0, nbins))
    width = np.diff(wl).min()*rng.uniform(0.3, 0.9, nbins)
    wn = 10000.0/wl
    y = spectrum_of(1300.0, 700.0, 1e-3, 1.2, wn)
    err = 3e-5*(0.2+rng.random(nbins))
    arr = np.stack([wl, y+err*rng.standard_normal(nbins), err, width], axis=1)
    return ArraySpectrum(arr[rng.permutation(nbins)])


# --------------------------------------------------------------------------
# the independent calculation
# --------------------------------------------------------------------------

MODEL_SETTERS = {'T_bottom': 0, 'T_top': 1, 'H2O': 2, 'planet_radius': 3}
DEFAULT_STATE = (1500.0, 800.0, 1e-4, 1.0)


def reference_binned(config, state):
    kind = config['kind']
    obs = config['obs']
    if kind == 'native':
        return spectrum_of(*state, obs.wavenumberGrid)
    native = spectrum_of(*state, NATIVE)
    if kind == 'block':
        edges = np.cumsum([0]+obs.sizes)
        return np.add.reduceat(native, edges[:-1])/np.asarray(obs.sizes)
    # stock FluxBinner: a fresh one, built straight from the observation
    fresh = FluxBinner(wngrid=obs.wavenumberGrid, wngrid_width=obs.binWidths)
    return fresh.bindown(NATIVE, native)[1]


def reference_loglike(config, names, physical):
    """names: fit_names of the optimizer; physical: values in linear space"""
    state = list(config['start_state'])
    offset = config.get('start_offset', 0.0)
    for name, value in zip(names, physical):
        bare = name[4:] if name.startswith('log_') else name
        if bare == 'obs_offset':
            offset = value
        else:
            state[MODEL_SETTERS[bare]] = value
    state = tuple(state)
    obs = config['obs']
    sigma = np.asarray(obs.errorBar, dtype=float)
    norm = -np.sum(np.log(sigma*math.sqrt(2.0*math.pi)))
    if not is_valid(state):
        return state, None
    if config['kind'] == 'block':
        data = obs._base + offset
    else:
        data = np.asarray(obs.spectrum, dtype=float)
    chi2 = np.sum(((data-reference_binned(config, state))/sigma)**2)
    return state, norm - 0.5*chi2


def reference_prior(spec, u):
    """spec: ('uniform', lo, hi) | ('log', lo, hi) | ('gauss', mu, sd) |
    ('loggauss', mu, sd); returns (sampled value, physical value)"""
    kind, a, b = spec
    if kind == 'uniform':
        lo, hi = min(a, b), max(a, b)
        return lo + u*(hi-lo), lo + u*(hi-lo)
    if kind == 'log':
        lo, hi = sorted((math.log10(a), math.log10(b)))
        return lo + u*(hi-lo), 10.0**(lo + u*(hi-lo))
    v = scipy.stats.norm.ppf(u, loc=a, scale=b)
    return (v, v) if kind == 'gauss' else (v, 10.0**v)


# --------------------------------------------------------------------------
# configurations: observation x fitted subset x priors
# --------------------------------------------------------------------------

def make_configs():
    rng = np.random.default_rng(20240614)
    configs = []

    configs.append(dict(
        label='block bins / 4 model params + observation offset',
        kind='block', obs=BlockObservation([3, 7, 11, 40, 100, 60, 90, 50],
                                           rng),
        cut=False,
        fit=[('T_bottom', 'linear', (900.0, 2600.0)),
             ('T_top', 'linear', (300.0, 1800.0)),
             ('H2O', 'log', (1e-9, 1e1)),
             ('planet_radius', 'linear', (0.6, 1.5)),
             ('obs_offset', 'linear', (-5e-5, 2e-4))],
        user_priors={}))

    configs.append(dict(
        label='flux-binned ArraySpectrum / subset, radius switched to log',
        kind='flux', obs=array_observation(rng), cut=False,
        fit=[('H2O', 'log', (1e-7, 30.0)),
             ('planet_radius', 'log', (0.5, 2.0)),
             ('T_top', 'linear', (1400.0, 1600.0))],
        user_priors={}))

    configs.append(dict(
        label='native grid / H2O switched to linear, Gaussian priors',
        kind='native', obs=NativeObservation(rng), cut=True,
        fit=[('T_top', 'linear', (100.0, 2900.0)),
             ('H2O', 'linear', (0.0, 2.0)),
             ('T_bottom', 'linear', (0.0, 1.0))],
        user_priors={'T_bottom': ('gauss', 1500.0, 400.0)}))

    configs.append(dict(
        label='block bins / log-Gaussian abundance, reversed bounds',
        kind='block', obs=BlockObservation([19]*19, rng), cut=False,
        fit=[('planet_radius', 'linear', (1.4, 0.7)),
             ('H2O', 'log', (1e-3, 1e-8))],
        user_priors={'H2O': ('loggauss', -1.0, 1.5)}))
    return configs


PRIOR_FACTORY = {
    'gauss': lambda a, b: Gaussian(mean=a, std=b),
    'loggauss': lambda a, b: LogGaussian(mean=a, std=b),
}


def build_optimizer(sampler, config, tmpdir):
    model = ToyAtmosphere(cut_to_request=config['cut'])
    obs = config['obs']
    if hasattr(obs, 'offset'):
        obs.offset = 0.0
    if sampler == 'nestle':
        opt = NestleOptimizer(observed=obs, model=model, num_live_points=7,
                              tol=0.25)
    elif sampler == 'multinest':
        opt = MultiNestOptimizer(multi_nest_path=tmpdir, observed=obs,
                                 model=model, num_live_points=11)
    else:
        opt = PolyChordOptimizer(polychord_path=tmpdir, observed=obs,
                                 model=model)
    for name, mode, bounds in config['fit']:
        opt.enable_fit(name)
        opt.set_mode(name, mode)
        opt.set_boundary(name, list(bounds))
    for name, (kind, a, b) in config['user_priors'].items():
        opt.set_prior(name, PRIOR_FACTORY[kind](a, b))
    opt.compile_params()
    return opt, model


def capture_callbacks(sampler, opt):
    """run compute_fit against the recording double; returns
    (loglike(point)->float, prior(u)->sequence, raw) in a uniform shape"""
    if sampler == 'nestle':
        seen = {}

        def fake_sample(loglikelihood, prior_transform, ndim, **kwargs):
            seen.update(loglike=loglikelihood, prior=prior_transform,
                        ndim=ndim, kwargs=kwargs)
            raise Captured()
        nestle.sample = fake_sample
        try:
            try:
                opt.compute_fit()
            except Captured:
                pass
        finally:
            nestle.sample = REAL_NESTLE_SAMPLE
        check(seen['ndim'] == len(opt.fit_names), 'nestle ndim')
        check(seen['kwargs'].get('npoints') == 7 and
              seen['kwargs'].get('dlogz') == 0.25 and
              seen['kwargs'].get('method') == 'multi',
              'nestle keyword arguments')
        return (lambda p: seen['loglike'](np.array(p, dtype=float)),
                lambda u: seen['prior'](np.array(u, dtype=float)), seen)

    if sampler == 'multinest':
        CAPTURE.pop('multinest', None)
        try:
            opt.compute_fit()
        except Captured:
            pass
        kw = CAPTURE['multinest']
        ndim = kw['n_dims']
        check(ndim == len(opt.fit_names), 'multinest n_dims')
        check(kw['n_live_points'] == 11, 'multinest live points')

        def loglike(p):
            # MultiNest hands over a bare C double*: no len(), no slicing
            buf = (ctypes.c_double*(ndim+2))(*list(p), -7.0, -7.0)
            ptr = ctypes.cast(buf, ctypes.POINTER(ctypes.c_double))
            return kw['LogLikelihood'](ptr, ndim, ndim+2)

        def prior(u):
            buf = (ctypes.c_double*(ndim+2))(*list(u), -7.0, -7.0)
            ptr = ctypes.cast(buf, ctypes.POINTER(ctypes.c_double))
            ret = kw['Prior'](ptr, ndim, ndim+2)
            check(ret is None, 'multinest prior works in place')
            check(buf[ndim] == -7.0 and buf[ndim+1] == -7.0,
                  'multinest prior leaves the extra slots alone')
            return [buf[i] for i in range(ndim)]
        return loglike, prior, kw

    CAPTURE.pop('polychord', None)
    try:
        opt.compute_fit()
    except Captured:
        pass
    args, kwargs = CAPTURE['polychord']
    pc_loglike, ndim, nderived, settings, pc_prior = args
    check(ndim == len(opt.fit_names) and nderived == 1, 'polychord dims')
    check(settings.nlive == ndim*25 and settings.num_repeats == ndim and
          settings.file_root == '1-' and settings.logzero == -1e70,
          'polychord settings')

    def loglike(p):
        out = pc_loglike(np.array(p, dtype=float))
        check(isinstance(out, tuple) and len(out) == 2 and
              list(out[1]) == [0.0], 'polychord returns (logL, [0.0])')
        return out[0]

    def prior(u):
        out = pc_prior(np.array(u, dtype=float))
        check(len(out) == ndim, 'polychord prior length')
        return list(out)
    return loglike, prior, args


def unit_points(ndim, rng):
    pts = [np.full(ndim, 0.5), np.full(ndim, 1e-9), np.full(ndim, 1-1e-9)]
    pts += [rng.random(ndim) for _ in range(9)]
    return pts


def run_config(sampler, config, tmpdir, rng):
    opt, model = build_optimizer(sampler, config, tmpdir)
    names = opt.fit_names
    config['start_state'] = model.state()

    # the sampled space: names / order / priors as documented
    specs = []
    expected_names = []
    for name, mode, bounds in config['fit']:
        if name in config['user_priors']:
            spec = config['user_priors'][name]
            is_log = spec[0] == 'loggauss'
        else:
            spec = ('log' if mode == 'log' else 'uniform',)+tuple(bounds)
            is_log = mode == 'log'
        expected_names.append(('log_'+name) if is_log else name)
    # model parameters come first (in declaration order of the fit list
    # restricted to the model), then the observation's own
    declared = [n for n in ('T_bottom', 'T_top', 'H2O', 'planet_radius',
                            'obs_offset')]
    by_bare = {}
    for (name, mode, bounds), label in zip(config['fit'], expected_names):
        if name in config['user_priors']:
            by_bare[name] = (label, config['user_priors'][name])
        else:
            by_bare[name] = (label, ('log' if mode == 'log' else 'uniform',)
                             + tuple(bounds))
    order = [n for n in declared if n in by_bare]
    check(names == [by_bare[n][0] for n in order],
          f'{sampler}: fit_names {names}')
    specs = [by_bare[n][1] for n in order]
    check(len(opt.fitting_priors) == len(names) ==
          len(opt.fitting_parameters), 'parallel lists')
    check([p[0] for p in opt.fitting_parameters] == order,
          'fitting_parameters order')

    loglike, prior, _ = capture_callbacks(sampler, opt)

    n_valid = n_invalid = 0
    last_valid = None
    for u in unit_points(len(names), rng):
        ref = [reference_prior(s, ui) for s, ui in zip(specs, u)]
        ref_theta = [r[0] for r in ref]
        ref_phys = [r[1] for r in ref]

        theta = prior(u)
        check(len(theta) == len(names), 'prior length')
        check(np.allclose(theta, ref_theta, rtol=1e-12, atol=1e-300),
              f'{sampler}: prior transform {theta} vs {ref_theta}')
        record(theta)

        before = len(model.calls)
        value = loglike(theta)
        check(len(model.calls) == before+1,
              'exactly one forward model evaluation per likelihood call')
        # the model saw exactly the prior-transformed values ...
        state_seen, grid_seen = model.calls[-1]
        written = [10.0**t if s[0] in ('log', 'loggauss') else t
                   for s, t in zip(specs, theta)]
        ref_state, ref_value = reference_loglike(config, names, written)
        check(same(state_seen, ref_state),
              f'{sampler}: model state {state_seen} vs {ref_state}')
        check(np.allclose(written, ref_phys, rtol=1e-11),
              'physical values')
        # ... and was asked for the observation's grid
        check(grid_seen is not None and
              same(grid_seen, config['obs'].wavenumberGrid),
              'model evaluated on the observation grid')
        record(value)
        if ref_value is None:
            n_invalid += 1
            check(not np.isfinite(value),
                  f'{sampler}: invalid atmosphere gave finite {value}')
        else:
            n_valid += 1
            last_valid = (theta, value)
            check(np.isfinite(value) and
                  abs(value-ref_value) <= 1e-9*max(1.0, abs(ref_value)),
                  f'{sampler}: logL {value!r} vs reference {ref_value!r}')

    # a fault sequence: valid, invalid, valid, invalid, invalid, valid.
    # built in the sampled space from a known-good point
    if last_valid is not None:
        good, good_value = last_valid
        bad_points = []
        for idx, name in enumerate(names):
            bare = name[4:] if name.startswith('log_') else name
            if bare == 'H2O' and specs[idx][0] != 'gauss':
                bad = list(good)
                bad[idx] = 0.5 if name.startswith('log_') else 1.5
                bad_points.append(bad)
            if bare == 'T_top':
                bad = list(good)
                bad[idx] = 1e4
                bad_points.append(bad)
        if bad_points:
            seq = [good]
            for bad in bad_points:
                seq += [bad, good, bad, bad, good]
            for point in seq:
                try:
                    got = loglike(point)
                except Exception as exc:   # noqa: BLE001
                    check(False, f'{sampler}: callback raised {exc!r}')
                if point is good:
                    check(got == good_value,
                          f'{sampler}: valid point after an invalid one '
                          f'{got!r} != {good_value!r}')
                else:
                    n_invalid += 1
                    check(not np.isfinite(got),
                          f'{sampler}: invalid point gave {got!r}')
                record(got)

    # any other failure of the model is not swallowed
    def boom(wngrid=None, cutoff_grid=True):
        raise ZeroDivisionError('not an invalid-model signal')
    if last_valid is not None:
        original = model.model
        model.model = boom
        try:
            loglike(last_valid[0])
            check(False, 'foreign exception was swallowed')
        except ZeroDivisionError:
            check(True, '')
        finally:
            model.model = original
        check(loglike(last_valid[0]) == last_valid[1], 'recovers afterwards')
    return n_valid, n_invalid


# --------------------------------------------------------------------------
# the base class on its own: parameter management and chi^2
# --------------------------------------------------------------------------

def base_class_checks():
    rng = np.random.default_rng(5)
    obs = BlockObservation([30, 31, 100, 200], rng)
    model = ToyAtmosphere()
    opt = Optimizer('demo', observed=obs, model=model)

    opt.compile_params()
    check(opt.fit_names == [] and opt.fitting_priors == [] and
          opt.derived_names == [], 'nothing enabled by default')
    try:
        opt.update_model([1.0])
        check(False, 'length mismatch accepted')
    except ValueError:
        check(True, '')

    opt.enable_fit('H2O')
    opt.enable_fit('obs_offset')
    opt.enable_fit('T_top')
    opt.enable_derived('t_mean')
    opt.set_boundary('T_top', [250.0, 1250.0])
    opt.set_factor_boundary('obs_offset', (0.0, 0.0))
    opt.set_boundary('obs_offset', (-1.0, 1.0))
    opt.compile_params()
    check(opt.fit_names == ['T_top', 'log_H2O', 'obs_offset'], 'names')
    check(opt.fit_latex == ['$T_t$', 'log(H$_2$O)', '$\\delta$'], 'latex')
    check(opt.derived_names == ['t_mean'] and opt.derived_latex == ['$<T>$']
          and opt.derived_values == [1150.0], 'derived')
    check(opt.fit_values == [800.0, -4.0, 0.0], 'fit_values')
    check(opt.fit_values_nomode == [800.0, 1e-4, 0.0], 'fit_values_nomode')
    check(opt.fit_boundaries == [[250.0, 1250.0], (-12.0, 2.0), (-1.0, 1.0)],
          f'fit_boundaries {opt.fit_boundaries}')
    for entry in model.fittingParameters.values():
        check(type(entry) is tuple and len(entry) == 7, 'model entry shape')
    for entry in obs.fittingParameters.values():
        check(type(entry) is tuple and len(entry) == 7, 'obs entry shape')
    for entry in model.derivedParameters.values():
        check(type(entry) is tuple and len(entry) == 4, 'derived entry shape')
    check(model.fittingParameters['T_top'][4:] ==
          ('linear', True, [250.0, 1250.0]), 'stored entry')
    check([type(p) for p in opt.fitting_priors] ==
          [Uniform, LogUniform, Uniform], 'default priors')
    check([p.priorMode for p in opt.fitting_priors] ==
          [PriorMode.LINEAR, PriorMode.LOG, PriorMode.LINEAR], 'prior modes')

    opt.set_factor_boundary('T_top', (0.5, 2.0))
    check(model.fittingParameters['T_top'][6] == (400.0, 1600.0),
          'factor boundary')
    try:
        opt.set_mode('T_top', 'cubic')
        check(False, 'bad mode accepted')
    except ValueError:
        check(model.fittingParameters['T_top'][4] == 'linear', 'mode kept')
    try:
        opt.set_prior('no_such_parameter', Uniform([0, 1]))
        check(False, 'prior for unknown parameter accepted')
    except ValueError:
        check(True, '')
    opt.set_mode('T_top', 'LOG')
    user = Gaussian(mean=-3.0, std=0.5)
    opt.set_prior('H2O', user)
    opt.compile_params()
    check(opt.fit_names == ['log_T_top', 'H2O', 'obs_offset'],
          f'names follow the priors {opt.fit_names}')
    check(opt.fitting_priors[1] is user, 'user prior kept')
    check(opt.fit_boundaries[0] == (math.log10(400.0), math.log10(1600.0)),
          'log boundaries')
    # default priors are rebuilt, user priors persist
    opt.set_mode('T_top', 'linear')
    opt.disable_derived('t_mean')
    opt.compile_params()
    check(opt.fit_names == ['T_top', 'H2O', 'obs_offset'] and
          opt.fitting_priors[1] is user and opt.derived_names == [],
          'recompilation')

    # update_model writes prior.prior(value), in order
    opt.update_model([1234.5, 0.25, 5e-5])
    check(model.state() == (1500.0, 1234.5, 0.25, 1.0) and
          obs.offset == 5e-5, 'update_model')

    # chi^2 against plain numpy, with arbitrary data/sigma arguments
    sigma = obs.errorBar*rng.uniform(0.5, 2.0, 4)
    chi = opt.chisq_trans([700.0, 0.01, -2e-5], obs.spectrum, sigma)
    native = spectrum_of(1500.0, 700.0, 0.01, 1.0, NATIVE)
    edges = np.cumsum([0]+obs.sizes)
    binned = np.add.reduceat(native, edges[:-1])/np.asarray(obs.sizes)
    ref = np.sum(((obs._base-2e-5-binned)/sigma)**2)
    check(abs(chi-ref) <= 1e-10*ref, f'chi^2 {chi} vs {ref}')
    check(np.isnan(opt.chisq_trans([1700.0, 0.01, 0.0], obs.spectrum, sigma)),
          'inverted temperatures -> nan')
    check(np.isnan(opt.chisq_trans([700.0, 1.01, 0.0], obs.spectrum, sigma)),
          'mixing ratio above one -> nan')
    # a model that answers with NaN everywhere is not a perfect fit
    real = model.model
    model.model = lambda wngrid=None, cutoff_grid=True: \
        (NATIVE, np.full_like(NATIVE, np.nan), None, None)
    check(np.isnan(opt.chisq_trans([700.0, 0.01, 0.0], obs.spectrum, sigma)),
          'all-NaN model -> nan')
    model.model = real
    # 2-d error bars are flattened
    chi2d = opt.chisq_trans([700.0, 0.01, -2e-5], obs.spectrum,
                            sigma.reshape(2, 2))
    check(chi2d == chi, '2-d sigma')
    record(chi, chi2d)
    opt.disable_fit('H2O')
    opt.disable_fit('T_top')
    opt.disable_fit('obs_offset')
    opt.compile_params()
    check(opt.fit_names == [], 'all disabled again')


# --------------------------------------------------------------------------
# a real (seeded) nestle run, every likelihood call audited
# --------------------------------------------------------------------------

def real_nestle_run():
    import contextlib
    import io
    rng = np.random.default_rng(99)
    obs = BlockObservation([19]*19, rng)
    config = dict(kind='block', obs=obs)
    model = ToyAtmosphere()
    opt = NestleOptimizer(observed=obs, model=model, num_live_points=25,
                          tol=2.0, sigma_fraction=0.2)
    opt.enable_fit('T_top')
    opt.enable_fit('H2O')
    opt.enable_derived('t_mean')
    opt.set_boundary('T_top', [300.0, 1600.0])   # reaches above T_bottom
    opt.set_boundary('H2O', [1e-7, 10.0])        # reaches above unity
    audit = []
    handed = {}

    def auditing_sample(loglikelihood, prior_transform, ndim, **kwargs):
        def logl(x):
            out = loglikelihood(x)
            audit.append((np.array(x, dtype=float), out))
            # nestle itself spins forever on a NaN live point; the audit
            # keeps the raw value, the sampler gets a very low one
            return out if np.isfinite(out) else -1e300
        kwargs['callback'] = None
        res = REAL_NESTLE_SAMPLE(logl, prior_transform, ndim, **kwargs)
        handed['res'] = res
        return res

    nestle.sample = auditing_sample
    np.random.seed(12345)
    try:
        with contextlib.redirect_stdout(io.StringIO()):
            solution = opt.fit()
    finally:
        nestle.sample = REAL_NESTLE_SAMPLE
    config['start_state'] = DEFAULT_STATE
    names = opt.fit_names
    check(names == ['T_top', 'log_H2O'], 'names of the real run')
    n_bad = 0
    for point, value in audit:
        phys = [point[0], 10.0**point[1]]
        _, ref = reference_loglike(config, names, phys)
        if ref is None:
            n_bad += 1
            check(not np.isfinite(value), 'invalid point in a real run')
        else:
            check(abs(value-ref) <= 1e-9*max(1.0, abs(ref)),
                  f'real run logL {value} vs {ref}')
        record(value)
    check(len(audit) > 100 and n_bad > 0,
          f'real run visited {len(audit)} points, {n_bad} invalid')

    res = handed['res']
    check(same(opt.get_samples(0), res.samples) and
          same(opt.get_weights(0), res.weights), 'samples / weights')
    sols = list(opt.get_solution())
    check(len(sols) == 1 and sols[0][0] == 0, 'one solution')
    _, opt_map, opt_median, extra = sols[0]
    extra = dict(extra)
    check(sorted(extra) == ['Statistics', 'fit_params', 'tracedata',
                            'weights'], 'solution extras')
    check(extra['Statistics'] == {'Log-Evidence': res.logz,
                                  'Log-Evidence-Error': res.logzerr,
                                  'Peakiness': res.h}, 'statistics')
    best = res.weights.argmax()
    check(same(opt_map, res.samples[best]), 'MAP is the heaviest sample')
    mean, cov = nestle.mean_and_cov(res.samples, res.weights)
    for idx, name in enumerate(names):
        fp = extra['fit_params'][name]
        check(sorted(fp) == ['map', 'mean', 'sigma', 'sigma_m', 'sigma_p',
                             'trace', 'value'], 'fit_params keys')
        check(fp['mean'] == mean[idx] and same(fp['sigma'], cov[idx]) and
              same(fp['trace'], res.samples[:, idx]) and
              fp['map'] == res.samples[best, idx] and
              fp['value'] == opt_median[idx], 'fit_params values')
        record(fp['value'], fp['sigma_m'], fp['sigma_p'], fp['map'])
    check(sorted(solution) == ['solution0'], 'solution dictionary')
    check(sorted(solution['solution0']) ==
          ['Profiles', 'Spectra', 'Statistics', 'derived_params',
           'fit_params', 'tracedata', 'weights'],
          f"solution keys {sorted(solution['solution0'])}")
    derived = solution['solution0']['derived_params']['t_mean_derived']
    check(same(derived['trace'], 0.5*(1500.0+res.samples[:, 0])),
          'derived trace follows the samples')
    record(derived['value'], derived['mean'])

    class Sink:
        def __init__(self):
            self.store = {}

        def create_group(self, name):
            grp = Sink()
            self.store[name] = grp.store
            return grp

        def _put(self, name, value, *args, **kwargs):
            self.store[name] = value
        write_string = write_scalar = write_array = write_list = _put
        write_string_array = _put

    sink = Sink()
    opt.write(sink)
    written = sink.store['Optimizer']
    check(written['optimizer'] == 'NestleOptimizer' and
          written['num_live_points'] == 25 and written['tol'] == 2.0 and
          written['method'] == 'multi' and
          list(written['fit_parameter_names']) == names and
          list(written['derived_parameter_names']) == ['t_mean'] and
          same(written['fit_boundary_low'], [300.0, -7.0]) and
          same(written['fit_boundary_high'], [1600.0, 1.0]),
          f'written optimizer block {written}')
    sink = Sink()
    opt.write_fit(sink)
    check(sorted(sink.store) == ['FitParams', 'Stats', 'solution'] and
          sorted(sink.store['solution']) ==
          ['covariance', 'fitparams', 'samples', 'weights'] and
          sink.store['FitParams']['fit_format'] == 'NestleOptimizer',
          f'written fit {sorted(sink.store)}')
    check(opt.tolerance == 2.0 and opt.numLivePoints == 25, 'accessors')
    opt.tolerance = 0.75
    opt.numLivePoints = 31
    check(opt.tolerance == 0.75 and opt.numLivePoints == 31, 'setters')


def main():
    import tempfile
    base_class_checks()
    totals = {}
    with tempfile.TemporaryDirectory() as tmpdir:
        for sampler in ('nestle', 'multinest', 'polychord'):
            rng = np.random.default_rng(7)
            for config in make_configs():
                v, i = run_config(sampler, config, tmpdir, rng)
                totals[sampler] = tuple(
                    a+b for a, b in zip(totals.get(sampler, (0, 0)), (v, i)))
    for sampler, (v, i) in totals.items():
        check(v >= 12 and i >= 12,
              f'{sampler}: too few valid ({v}) or invalid ({i}) points')
        print(f'{sampler:10s} valid points {v:3d}   invalid points {i:3d}')
    if "--skip-real" not in sys.argv: real_nestle_run()
    print('checks passed:', NCHECK[0])
    print('digest:', DIGEST.hexdigest())


if __name__ == '__main__':
    main()
    sys.exit(0)
