import os, sys; sys.path.insert(0, os.getcwd())
"""
Reviewer's demo for property C16: "Output files hold what was computed and
reload to the same model".

Everything TauREx writes is read back with plain h5py (never with TauREx
code) and compared against values computed independently in this script.

Run as:  cd <worktree> && /venv/bin/python <this file>
"""
import warnings
warnings.filterwarnings("ignore")
import logging
import tempfile
import shutil

import numpy as np
import h5py

import taurex
assert os.path.abspath(taurex.__file__).startswith(os.getcwd() + os.sep), \
    'taurex imported from %s, not from the current directory' % taurex.__file__

from taurex.log import setLogLevel
setLogLevel(logging.CRITICAL)

from taurex import OutputSize
from taurex.cache import OpacityCache
from taurex.opacity.interpolateopacity import InterpolatingOpacity
from taurex.output.hdf5 import HDF5Output, HDF5OutputGroup
from taurex.output.output import Output, OutputGroup
from taurex.binning import FluxBinner, SimpleBinner, NativeBinner
from taurex.model import TransmissionModel, EmissionModel
from taurex.data import Planet
from taurex.data.stellar import BlackbodyStar
from taurex.data.profiles.temperature import Isothermal, Guillot2010
from taurex.data.profiles.pressure import SimplePressureProfile
from taurex.data.profiles.chemistry import TaurexChemistry, ConstantGas
from taurex.contributions import AbsorptionContribution, \
    RayleighContribution, SimpleCloudsContribution
from taurex.util.hdf5 import taurex_hdf5_to_model, load_model_from_hdf5
from taurex.util.output import store_contributions, generate_profile_dict
from taurex.util.util import recursively_save_dict_contents_to_output, \
    store_thing

CHECKS = [0]
TMP = tempfile.mkdtemp(prefix='c16demo')


def check(cond, msg):
    CHECKS[0] += 1
    if not cond:
        print('FAILED:', msg)
        shutil.rmtree(TMP, ignore_errors=True)
        sys.exit(1)


def same(a, b, msg):
    a = np.asarray(a)
    b = np.asarray(b)
    check(a.shape == b.shape, msg + ' (shape %s vs %s)' % (a.shape, b.shape))
    check(np.array_equal(a, b), msg + ' (values differ)')


# ----------------------------------------------------------------------
# in-memory opacities
# ----------------------------------------------------------------------

class FakeOpacity(InterpolatingOpacity):

    def __init__(self, molecule, wngrid, seed):
        super().__init__('Fake:' + molecule)
        self._mol = molecule
        self._wn = wngrid
        self._t = np.array([200.0, 800.0, 1500.0, 2500.0])
        self._p = np.array([1e-3, 1e0, 1e3, 1e6, 1e8])   # Pa
        rng = np.random.RandomState(seed)
        base = 10**(-22 + 2*np.sin(wngrid/(150.0+10*seed)) +
                    rng.rand(wngrid.shape[0]))
        self._xsec = base[None, None, :] * \
            (1 + 0.1*np.arange(5))[:, None, None] * \
            (1 + 0.3*np.arange(4))[None, :, None]

    @property
    def moleculeName(self):
        return self._mol

    @property
    def wavenumberGrid(self):
        return self._wn

    @property
    def temperatureGrid(self):
        return self._t

    @property
    def pressureGrid(self):
        return self._p

    @property
    def xsecGrid(self):
        return self._xsec

    @property
    def resolution(self):
        return 100


NATIVE = 10000/np.logspace(np.log10(0.6), np.log10(12.0), 400)[::-1]
NATIVE = np.sort(NATIVE)
oc = OpacityCache()
oc.clear_cache()
oc.add_opacity(FakeOpacity('H2O', NATIVE, 1))
oc.add_opacity(FakeOpacity('CH4', NATIVE, 2))


# ----------------------------------------------------------------------
# independent re-implementations used as ground truth
# ----------------------------------------------------------------------

def ref_edges_width(grid):
    """bin edges half way between points, outer edges mirrored"""
    n = len(grid)
    edges = np.empty(n+1)
    for i in range(1, n):
        edges[i] = grid[i-1] + (grid[i]-grid[i-1])/2
    edges[0] = grid[0] - (grid[1]-grid[0])/2
    edges[n] = (grid[n-1]-grid[n-2])/2 + grid[n-1]
    return edges, np.abs(edges[1:]-edges[:-1])


def ref_simple_bin(native, data, centres):
    """mean of the native samples falling between the mid-point edges.
    1-d data: bins closed on the left (last one closed on both sides);
    n-d data: bins closed on the right."""
    e = np.empty(len(centres)+1)
    e[0] = centres[0] - (centres[1]-centres[0])/2
    e[-1] = centres[-1] + (centres[-1]-centres[-2])/2
    e[1:-1] = (centres[1:]+centres[:-1])/2
    data = np.asarray(data)
    last = len(centres)-1
    out = np.full(data.shape[:-1] + (len(centres),), np.nan)
    for i in range(len(centres)):
        if data.ndim == 1:
            m = (native >= e[i]) & ((native < e[i+1]) if i < last
                                    else (native <= e[i+1]))
        else:
            m = (native > e[i]) & (native <= e[i+1])
        if m.any():
            out[..., i] = data[..., m].sum(axis=-1)/m.sum()
    return out


def ref_flux_bin(native, data, centres, widths):
    """overlap weighted mean over ALL native bins (brute force)"""
    order = np.argsort(native)
    native = native[order]
    data = np.asarray(data)[..., order]
    nw = ref_edges_width(native)[1]
    lo = native - nw/2
    hi = native + nw/2
    out = np.zeros(data.shape[:-1] + (len(centres),))
    for i, (c, w) in enumerate(zip(centres, widths)):
        a, b = c-w/2, c+w/2
        ws = np.clip(np.minimum(b, hi) - np.maximum(lo, a), 0, None)/(b-a)
        tot = ws.sum()
        if tot > 0:
            out[..., i] = (data*ws).sum(axis=-1)/tot
    return out


def read_tree(node):
    """h5py group -> nested dict of raw values"""
    out = {}
    for k in node.keys():
        item = node[k]
        if isinstance(item, h5py.Group):
            out[k] = read_tree(item)
        else:
            out[k] = item[()]
    return out


def as_text(v):
    return v.decode() if isinstance(v, bytes) else v


# ----------------------------------------------------------------------
# 1. dictionary round trip
# ----------------------------------------------------------------------

def compare_stored(original, stored, path=''):
    """every entry of ``original`` is in ``stored`` under the same name"""
    for key, val in original.items():
        here = path + '/' + str(key)
        if isinstance(val, dict):
            check(str(key) in stored and isinstance(stored[str(key)], dict),
                  'group %s missing' % here)
            compare_stored(val, stored[str(key)], here)
            check(set(stored[str(key)].keys()) >=
                  set(str(k) for k in val.keys() if not
                      (isinstance(val[k], (list, tuple)) and
                       is_ragged(val[k]))),
                  'names under %s' % here)
        elif isinstance(val, str):
            check(str(key) in stored, 'string %s missing' % here)
            check(as_text(stored[str(key)]) == val, 'string %s' % here)
        elif isinstance(val, (list, tuple)) and \
                any(isinstance(x, str) for x in val):
            check(str(key) in stored, 'string list %s missing' % here)
            got = [s[0].decode('utf-8') for s in stored[str(key)]]
            check(got == [x for x in val], 'string list %s: %s' % (here, got))
        elif isinstance(val, (list, tuple)) and is_ragged(val):
            for idx, x in enumerate(val):
                compare_stored({'%s%d' % (key, idx): x}, stored, path)
        elif isinstance(val, (list, tuple)):
            check(str(key) in stored, 'list %s missing' % here)
            same(stored[str(key)], np.array(list(val)), 'list %s' % here)
        elif isinstance(val, np.ndarray):
            check(str(key) in stored, 'array %s missing' % here)
            same(stored[str(key)], val, 'array %s' % here)
            check(stored[str(key)].dtype == val.dtype, 'dtype %s' % here)
        else:
            check(str(key) in stored, 'scalar %s missing' % here)
            check(np.ndim(stored[str(key)]) == 0, 'scalar %s is 0-d' % here)
            check(stored[str(key)] == val, 'scalar %s' % here)


def is_ragged(seq):
    try:
        arr = np.array(list(seq))
    except ValueError:
        return True
    return arr.dtype == object


def dictionary_round_trip():
    rng = np.random.RandomState(3)
    long_name = 'x'*90
    tree = {
        'a_float': 3.25,
        'an_int': -7,
        'a_bool': True,
        'np_float': np.float64(1e-300),
        'np_int': np.int64(2**40),
        'text': 'TauREx – three',
        'empty_text': '',
        'vec': rng.rand(7),
        'ivec': np.arange(5),
        'i32': np.arange(4, dtype=np.int32),
        'mat': rng.rand(3, 4),
        'cube': rng.rand(2, 3, 2).astype(np.float32),
        'empty': np.zeros((0,)),
        'numlist': [1.5, 2.5, -3.0],
        'intlist': [1, 2, 3],
        'numtuple': (4, 5, 6),
        'nested_list': [[1, 2], [3, 4]],
        'names': ['H2O', 'CH4', long_name],
        'name_tuple': ('a', 'bb'),
        'ragged': [np.arange(3.), np.arange(2.)],
        'ragged_mixed': [[1.0, 2.0], [3.0]],
        7: np.ones(2),
        'sub': {
            'deeper': {'w': rng.rand(2, 2), 'label': 'deep', 'n': 0,
                       'deepest': {'z': np.array([1.0])}},
            'v': rng.rand(3),
            'empty_group': {},
        },
    }
    for use_group in (None, 'Stuff'):
        fname = os.path.join(TMP, 'dict_%s.h5' % use_group)
        with HDF5Output(fname) as o:
            check(isinstance(o, Output), 'HDF5Output is an Output')
            if use_group is None:
                # the file root only takes groups
                o.store_dictionary({'Stuff': tree})
            else:
                o.store_dictionary(tree, group_name=use_group)
        with h5py.File(fname, 'r') as f:
            root = f['Stuff']
            check(list(f.keys()) == ['Stuff'], 'one top level group')
            stored = read_tree(root)
            # file level attributes
            check(f.attrs['file_name'] == fname, 'file_name attribute')
            check(f.attrs['creator'] == 'HDF5Output', 'creator attribute')
            check(f.attrs['program_name'] == 'TauREx', 'program attribute')
            check(f.attrs['program_version'] == 'v3.0', 'version attribute')
            check(f.attrs['h5py_version'] == h5py.version.version, 'h5py')
            check(f.attrs['HDF5_Version'] == h5py.version.hdf5_version, 'v')
            check('file_time' in f.attrs, 'file_time attribute')
        compare_stored(tree, stored)
        expected_names = set(str(k) for k in tree
                             if not str(k).startswith('ragged'))
        expected_names |= {'ragged0', 'ragged1', 'ragged_mixed0',
                           'ragged_mixed1'}
        check(set(stored.keys()) == expected_names,
              'top level names %s' % sorted(stored.keys()))
        # fixed width string arrays: 64 unless longer
        check(stored['names'].dtype == np.dtype('S90'), 'string width grows')
        check(stored['name_tuple'].dtype == np.dtype('S64'), 'string width')
        check(stored['names'].shape == (3, 1), 'string array shape')
        check(stored['sub']['empty_group'] == {}, 'empty group kept')

    # direct calls of the group API, with metadata
    fname = os.path.join(TMP, 'api.h5')
    with HDF5Output(fname) as o:
        g = o.create_group('G')
        check(isinstance(g, HDF5OutputGroup) and isinstance(g, OutputGroup),
              'group type')
        meta = {'unit': 'm', 'n': 3}
        g.write_array('arr', np.arange(6.).reshape(2, 3), metadata=meta)
        g.write_array('arrlist', [np.arange(2.), np.arange(3.)],
                      metadata=meta)
        g.write_list('lst', [1, 2, 3], metadata=meta)
        g.write_scalar('sc', 2.5, metadata=meta)
        g.write_string('st', 'hello', metadata=meta)
        g.write_string_array('sa', ['p', 'q'], metadata=meta)
        g.write_scalar(11, 1)
        gg = g.create_group('H').create_group(5)
        gg.write_scalar('x', 1)
        store_thing(gg, 'thing', (1.0, 2.0))
        recursively_save_dict_contents_to_output(gg, {'r': {'s': 'q'}})
    with h5py.File(fname, 'r') as f:
        g = f['G']
        same(g['arr'][()], np.arange(6.).reshape(2, 3), 'write_array')
        same(g['arrlist0'][()], np.arange(2.), 'write_array list 0')
        same(g['arrlist1'][()], np.arange(3.), 'write_array list 1')
        same(g['lst'][()], np.array([1, 2, 3]), 'write_list')
        check(g['sc'][()] == 2.5, 'write_scalar')
        check(as_text(g['st'][()]) == 'hello', 'write_string')
        check([s[0].decode() for s in g['sa'][()]] == ['p', 'q'], 'strarr')
        check(g['11'][()] == 1, 'integer names become strings')
        check(g['H']['5']['x'][()] == 1, 'nested integer group name')
        same(g['H']['5']['thing'][()], np.array([1.0, 2.0]), 'store_thing')
        check(as_text(g['H']['5']['r']['s'][()]) == 'q', 'recursive store')
        for name in ('arr', 'arrlist0', 'arrlist1', 'lst', 'sc', 'st', 'sa'):
            check(dict(g[name].attrs) == meta, 'metadata on %s' % name)
        check(len(g['11'].attrs) == 0, 'no metadata when none given')

    # append mode keeps earlier content
    with HDF5Output(fname, append=True) as o:
        o.create_group('Later').write_scalar('y', 2)
    with h5py.File(fname, 'r') as f:
        check(f['Later']['y'][()] == 2 and 'G' in f, 'append keeps content')
    with HDF5Output(fname) as o:
        pass
    with h5py.File(fname, 'r') as f:
        check(len(f.keys()) == 0, 'write mode truncates')

    # unsupported values are refused with ValueError naming the type
    for bad in (None, 1+2j, np.float32(1.0), {1, 2}, object()):
        with HDF5Output(os.path.join(TMP, 'bad.h5')) as o:
            try:
                o.store_dictionary({'ok': 1, 'bad': bad}, group_name='g')
            except ValueError as e:
                check(str(type(bad)) in str(e), 'message names the type')
            else:
                check(False, 'storing %r must raise ValueError' % (bad,))
    with HDF5Output(os.path.join(TMP, 'bad.h5')) as o:
        try:
            store_thing(o.create_group('g'), 'bad', None)
        except TypeError:
            pass
        else:
            check(False, 'store_thing raises TypeError')

    # the abstract bases stay abstract
    for call in (lambda: Output('x').open(), lambda: Output('x').close(),
                 lambda: Output('x').create_group('g'),
                 lambda: OutputGroup('x').write_array('a', np.ones(1)),
                 lambda: OutputGroup('x').write_scalar('a', 1),
                 lambda: OutputGroup('x').write_string('a', 'b'),
                 lambda: OutputGroup('x').write_string_array('a', ['b'])):
        try:
            call()
        except NotImplementedError:
            pass
        else:
            check(False, 'abstract method must raise NotImplementedError')


# ----------------------------------------------------------------------
# 2. models
# ----------------------------------------------------------------------

def make_model(kind):
    if kind == 'transmission_iso':
        chem = TaurexChemistry(fill_gases=['H2', 'He'], ratio=0.17)
        chem.addGas(ConstantGas('H2O', mix_ratio=2e-4))
        chem.addGas(ConstantGas('CH4', mix_ratio=3e-5))
        m = TransmissionModel(
            planet=Planet(planet_mass=0.8, planet_radius=1.2,
                          planet_distance=0.05, impact_param=0.3,
                          orbital_period=3.5, albedo=0.2,
                          transit_time=5000.0),
            star=BlackbodyStar(temperature=5500.0, radius=0.9,
                               distance=12.0, magnitudeK=8.0, mass=0.95,
                               metallicity=1.1),
            pressure_profile=SimplePressureProfile(
                nlayers=12, atm_min_pressure=1e-2, atm_max_pressure=1e6),
            temperature_profile=Isothermal(T=1234.0),
            chemistry=chem)
        m.add_contribution(AbsorptionContribution())
        m.add_contribution(RayleighContribution())
        m.add_contribution(SimpleCloudsContribution(clouds_pressure=2e3))
    elif kind == 'transmission_guillot':
        chem = TaurexChemistry(fill_gases='H2')
        chem.addGas(ConstantGas('H2O', mix_ratio=1e-3))
        m = TransmissionModel(
            temperature_profile=Guillot2010(T_irr=1400.0, kappa_irr=0.02,
                                            kappa_v1=0.004, kappa_v2=0.006,
                                            alpha=0.4, T_int=150.0),
            chemistry=chem, nlayers=9, atm_min_pressure=1e-1,
            atm_max_pressure=1e5)
        m.add_contribution(AbsorptionContribution())
    elif kind == 'emission':
        chem = TaurexChemistry(fill_gases=['H2', 'He'], ratio=0.2)
        chem.addGas(ConstantGas('CH4', mix_ratio=5e-4))
        chem.addGas(ConstantGas('H2O', mix_ratio=1e-5))
        m = EmissionModel(
            planet=Planet(planet_mass=1.5, planet_radius=0.9),
            star=BlackbodyStar(temperature=4800.0, radius=0.7),
            temperature_profile=Isothermal(T=1600.0),
            chemistry=chem, nlayers=10, atm_min_pressure=1e-1,
            atm_max_pressure=1e6, ngauss=3)
        m.add_contribution(AbsorptionContribution())
        m.add_contribution(RayleighContribution())
    elif kind == 'transmission_default':
        m = TransmissionModel(nlayers=7)
        m.add_contribution(AbsorptionContribution())
    else:
        raise ValueError(kind)
    m.build()
    return m


def fitting_values(model):
    return {k: v[2]() for k, v in model.fittingParameters.items()}


def model_round_trip(kind):
    m = make_model(kind)
    truth = m.model()
    fname = os.path.join(TMP, 'model_%s.h5' % kind)
    with HDF5Output(fname) as o:
        group = m.write(o)
        check(isinstance(group, HDF5OutputGroup), 'write returns the group')

    # what was written, read independently
    with h5py.File(fname, 'r') as f:
        mp = read_tree(f['ModelParameters'])
    check(as_text(mp['model_type']) == type(m).__name__, 'model_type')
    check(set(mp['Contributions'].keys()) ==
          set(type(c).__name__ for c in m.contribution_list),
          'contribution groups')
    for grp in ('Chemistry', 'Temperature', 'Pressure', 'Planet', 'Star'):
        check(grp in mp, '%s group stored' % grp)
    check(as_text(mp['Temperature']['temperature_type']) ==
          type(m.temperature).__name__, 'temperature_type')
    check(as_text(mp['Pressure']['pressure_type']) ==
          type(m.pressure).__name__, 'pressure_type')
    check(as_text(mp['Planet']['planet_type']) == 'Planet', 'planet_type')
    check(as_text(mp['Star']['star_type']) == 'BlackbodyStar', 'star_type')
    same(mp['Pressure']['profile'], m.pressureProfile, 'pressure profile')
    check(mp['Pressure']['nlayers'] == m.nLayers, 'nlayers')
    check(mp['Planet']['mass_kg'] == m.planet.mass, 'planet mass')
    check(mp['Planet']['radius_m'] == m.planet.radius, 'planet radius')
    check(mp['Star']['temperature'] == m.star.temperature, 'star T')
    same(mp['Star']['SED'], m.star.spectralEmissionDensity, 'star SED')
    for gas in m.chemistry.activeGases:
        check(gas in mp['Chemistry'], 'gas %s stored' % gas)
    if 'SimpleCloudsContribution' in mp['Contributions']:
        check(mp['Contributions']['SimpleCloudsContribution']
              ['clouds_pressure'] == 2e3, 'cloud pressure')
    if kind == 'emission':
        check(mp['ngauss'] == 3, 'ngauss stored')

    # rebuilt model
    loaded = taurex_hdf5_to_model(fname)
    with h5py.File(fname, 'r') as f:
        loaded2 = load_model_from_hdf5(f['ModelParameters'])
    for ld in (loaded, loaded2):
        check(type(ld) is type(m), 'model class')
        ld.build()
        for attr in ('planet', 'star', 'temperature', 'pressure',
                     'chemistry'):
            check(type(getattr(ld, attr)) is type(getattr(m, attr)),
                  '%s class' % attr)
        check([type(c) for c in ld.contribution_list] ==
              [type(c) for c in m.contribution_list], 'contribution classes')
        fv, lv = fitting_values(m), fitting_values(ld)
        check(list(fv.keys()) == list(lv.keys()), 'fitting parameter names')
        for k in fv:
            check(np.isclose(fv[k], lv[k], rtol=1e-12, atol=0),
                  'parameter %s: %r vs %r' % (k, fv[k], lv[k]))
        check(ld.nLayers == m.nLayers, 'layers')
        check(list(ld.chemistry.activeGases) == list(m.chemistry.activeGases),
              'active gases')
        check(list(ld.chemistry.inactiveGases) ==
              list(m.chemistry.inactiveGases), 'inactive gases')
        got = ld.model()
        same(got[0], truth[0], 'reloaded native grid')
        check(np.allclose(got[1], truth[1], rtol=1e-10, atol=0),
              'reloaded spectrum')
        check(np.allclose(got[2], truth[2], rtol=1e-10, atol=1e-300),
              'reloaded tau')
        check(got[3] is None and truth[3] is None, 'extra is None')
        same(ld.pressureProfile, m.pressureProfile, 'pressure profile')
        check(np.allclose(ld.temperatureProfile, m.temperatureProfile,
                          rtol=1e-12), 'temperature profile')
        check(np.allclose(ld.altitudeProfile, m.altitudeProfile, rtol=1e-10),
              'altitude profile')

    # replacement dictionary overrides stored values
    if kind == 'transmission_iso':
        rep = taurex_hdf5_to_model(fname, replacement_dict={'T': 900.0})
        check(rep.temperature.isoTemperature == 900.0, 'replacement used')
        check(rep.planet.mass == m.planet.mass or
              np.isclose(rep.planet.mass, m.planet.mass, rtol=1e-12),
              'others kept')
    return m, truth


# ----------------------------------------------------------------------
# 3. spectrum dictionaries
# ----------------------------------------------------------------------

def make_binners():
    wl = np.linspace(1.0, 9.0, 23)
    wn_desc = 10000/wl                      # descending
    wn = np.sort(wn_desc)
    widths = ref_edges_width(wn)[1]*0.8
    gappy = np.concatenate([np.linspace(1200, 1800, 7),
                            np.linspace(4000, 6000, 9)])
    return [
        ('native', NativeBinner(), None, None),
        ('simple', SimpleBinner(wn), wn, ref_edges_width(wn)[1]),
        ('simple_w', SimpleBinner(wn, wngrid_width=widths), wn, widths),
        ('flux', FluxBinner(wn), wn, ref_edges_width(wn)[1]),
        ('flux_w', FluxBinner(wn, wngrid_width=widths), wn, widths),
        ('flux_scalar', FluxBinner(wn, wngrid_width=25.0), wn,
         np.ones_like(wn)*25.0),
        ('flux_unsorted', FluxBinner(wn_desc, wngrid_width=widths[::-1]),
         wn, widths),
        ('flux_gappy', FluxBinner(gappy), gappy, ref_edges_width(gappy)[1]),
    ]


def spectrum_outputs(model, truth, tag):
    wn, flux, tau, extra = truth
    for name, binner, centres, widths in make_binners():
        for size in (OutputSize.heavy, OutputSize.light, OutputSize.lighter,
                     3, 0):
            out = binner.generate_spectrum_output(truth, output_size=size)
            check(isinstance(out, dict), 'dict output')

            # --- self description
            same(out['native_wngrid'], wn, 'native_wngrid')
            same(out['native_wlgrid'], 10000/wn, 'native_wlgrid')
            same(out['native_spectrum'], flux, 'native_spectrum')
            if name == 'native':
                expected = {'native_wngrid', 'native_wlgrid',
                            'native_spectrum'}
                if size > 3:
                    expected.add('native_tau')
                    same(out['native_tau'], tau, 'native tau')
                check(set(out.keys()) == expected,
                      'native keys %s' % sorted(out.keys()))
            else:
                expected = {'native_wngrid', 'native_wlgrid',
                            'native_spectrum', 'binned_spectrum',
                            'native_wnwidth', 'native_wlwidth',
                            'binned_wngrid', 'binned_wlgrid',
                            'binned_wnwidth', 'binned_wlwidth'}
                if size > 1:
                    expected.add('binned_tau')
                if size > 3:
                    expected.add('native_tau')
                check(set(out.keys()) == expected,
                      '%s keys for size %s: %s' % (name, size,
                                                   sorted(out.keys())))
                same(out['native_wnwidth'], ref_edges_width(wn)[1],
                     'native_wnwidth')
                same(out['native_wlwidth'], ref_edges_width(10000/wn)[1],
                     'native_wlwidth')
                same(out['binned_wngrid'], centres, 'binned_wngrid')
                same(out['binned_wlgrid'], 10000/centres, 'binned_wlgrid')
                same(out['binned_wnwidth'], widths, 'binned_wnwidth')
                same(out['binned_wlwidth'], 10000*widths/(centres**2),
                     'binned_wlwidth at bin centre')
                if name.startswith('simple'):
                    ref = ref_simple_bin(wn, flux, centres)
                    reft = ref_simple_bin(wn, tau, centres)
                else:
                    ref = ref_flux_bin(wn, flux, centres, widths)
                    reft = ref_flux_bin(wn, tau, centres, widths)
                check(out['binned_spectrum'].shape == ref.shape, 'shape')
                check(np.allclose(out['binned_spectrum'], ref, rtol=1e-12,
                                  atol=0, equal_nan=True),
                      '%s binned_spectrum vs independent binning' % name)
                # and exactly what the binner itself gives for the stored
                # native spectrum
                same(out['binned_spectrum'],
                     binner.bindown(out['native_wngrid'],
                                    out['native_spectrum'])[1],
                     'binned == binner(native)')
                same(out['binned_spectrum'], binner.bin_model(truth)[1],
                     'bin_model')
                if 'binned_tau' in out:
                    check(out['binned_tau'].shape == reft.shape, 'tau shape')
                    check(np.allclose(out['binned_tau'], reft, rtol=1e-12,
                                      atol=0, equal_nan=True),
                          '%s binned_tau vs independent binning' % name)
                if 'native_tau' in out:
                    same(out['native_tau'], tau, 'native_tau')
                res = binner.bindown(wn, flux)
                check(len(res) == 4, 'bindown returns 4 values')
                same(res[0], centres, 'bindown grid')
                same(res[3], widths, 'bindown widths')
                check(res[2] is None, 'no error -> None')

            # --- stored and read back
            fname = os.path.join(TMP, 'spec_%s_%s_%s.h5' %
                                 (tag, name, int(size)))
            with HDF5Output(fname) as o:
                grp = o.create_group('Output')
                grp.store_dictionary(out, group_name='Spectra')
            with h5py.File(fname, 'r') as f:
                stored = read_tree(f['Output']['Spectra'])
            check(set(stored.keys()) == set(out.keys()), 'stored names')
            for k in out:
                same(stored[k], out[k], 'stored %s' % k)
            same(stored['native_wlgrid'], 10000/stored['native_wngrid'],
                 'stored wl = 10000/wn')

    # FluxBinner with errors: propagated in quadrature with the weights
    fb = FluxBinner(np.linspace(1500, 9000, 11))
    err = np.abs(np.sin(wn))*1e-5 + 1e-6
    g, s, e, w = fb.bindown(wn, flux, error=err)
    check(e is not None and e.shape == g.shape, 'binned error shape')
    nw = ref_edges_width(wn)[1]
    lo, hi = wn-nw/2, wn+nw/2
    for i in (0, 5, 10):
        a, b = g[i]-w[i]/2, g[i]+w[i]/2
        wt = np.clip(np.minimum(b, hi)-np.maximum(lo, a), 0, None)/(b-a)
        ref_e = np.sqrt(np.sum(wt*wt*err**2))/np.sum(wt)
        check(np.isclose(e[i], ref_e, rtol=1e-10), 'binned error value')
    # widths of wrong length are refused
    try:
        FluxBinner(np.linspace(1, 2, 5), wngrid_width=np.ones(4))
    except ValueError:
        pass
    else:
        check(False, 'FluxBinner must refuse mismatching widths')


def contributions_and_profiles(model, truth, tag):
    wn = truth[0]
    centres = np.sort(10000/np.linspace(1.0, 9.0, 15))
    for binner in (SimpleBinner(centres), FluxBinner(centres)):
        for size in (OutputSize.heavy, OutputSize.light, OutputSize.lighter):
            cd = store_contributions(binner, model, output_size=size)
            grid, main = model.model_contrib()
            grid2, comps = model.model_full_contrib()
            same(grid, wn, 'contribution grid')
            check(list(cd.keys()) == list(main.keys()), 'contribution names')
            for cname, (cflux, ctau, cextra) in main.items():
                entry = cd[cname]
                same(entry['native_spectrum'], cflux, 'contrib native')
                same(entry['binned_spectrum'],
                     binner.bindown(wn, cflux)[1], 'contrib binned')
                for gone in ('native_wngrid', 'native_wnwidth',
                             'native_wlgrid', 'native_wlwidth',
                             'binned_wngrid', 'binned_wnwidth',
                             'binned_wlgrid', 'binned_wlwidth'):
                    check(gone not in entry, '%s removed' % gone)
                check(('binned_tau' in entry) == (size > 1), 'contrib btau')
                check(('native_tau' in entry) == (size > 3), 'contrib ntau')
                if 'native_tau' in entry:
                    same(entry['native_tau'], ctau, 'contrib tau')
                comp_names = [c[0] for c in comps[cname]]
                check(set(entry.keys()) - set(comp_names) ==
                      {'native_spectrum', 'binned_spectrum'} |
                      ({'binned_tau'} if size > 1 else set()) |
                      ({'native_tau'} if size > 3 else set()),
                      'contribution entry keys %s' % sorted(entry.keys()))
                for name, f_, t_, x_ in comps[cname]:
                    sub = entry[name]
                    same(sub['native_spectrum'], f_, 'component native')
                    same(sub['binned_spectrum'],
                         binner.bindown(wn, f_)[1], 'component binned')
                    check('native_wngrid' not in sub and
                          'binned_wlwidth' not in sub, 'component grids')
                    check(('binned_tau' in sub) == (size > 1), 'comp btau')
                    check(('native_tau' in sub) == (size > 3), 'comp ntau')
            # nested dictionary survives the file
            fname = os.path.join(TMP, 'contrib_%s.h5' % tag)
            with HDF5Output(fname) as o:
                o.store_dictionary({'Contributions': cd}, group_name='Sp')
            with h5py.File(fname, 'r') as f:
                stored = read_tree(f['Sp']['Contributions'])
            compare_stored(cd, stored)

    prof = model.generate_profiles()
    base = generate_profile_dict(model)
    check(set(prof.keys()) == set(base.keys()) | {'mu_profile'},
          'profile keys')
    same(prof['temp_profile'], model.temperatureProfile, 'temp_profile')
    same(prof['pressure_profile'], model.pressureProfile, 'pressure')
    same(prof['density_profile'], model.densityProfile, 'density')
    same(prof['altitude_profile'], model.altitudeProfile, 'altitude')
    same(prof['scaleheight_profile'], model.scaleheight_profile, 'H')
    same(prof['gravity_profile'], model.gravity_profile, 'g')
    same(prof['active_mix_profile'], model.chemistry.activeGasMixProfile,
         'active')
    same(prof['inactive_mix_profile'],
         model.chemistry.inactiveGasMixProfile, 'inactive')
    same(prof['mu_profile'], model.chemistry.muProfile, 'mu')
    # density = P/kT computed here
    from taurex.constants import KBOLTZ
    same(prof['density_profile'],
         model.pressureProfile/(KBOLTZ*model.temperatureProfile),
         'density formula')
    fname = os.path.join(TMP, 'prof_%s.h5' % tag)
    with HDF5Output(fname) as o:
        o.create_group('Output').store_dictionary(prof,
                                                  group_name='Profiles')
    with h5py.File(fname, 'r') as f:
        stored = read_tree(f['Output']['Profiles'])
    compare_stored(prof, stored)
    check(set(stored.keys()) == set(prof.keys()), 'stored profile names')


_PL = ['planet_mass', 'planet_radius', 'planet_distance', 'planet_sma',
       'atm_min_pressure', 'atm_max_pressure']
EXPECTED_FIT = {
    'transmission_iso': _PL + ['T', 'H2O', 'CH4', 'He_H2',
                               'clouds_pressure'],
    'transmission_guillot': _PL + ['T_irr', 'kappa_irr', 'kappa_v1',
                                   'kappa_v2', 'alpha', 'T_int_guillot',
                                   'H2O'],
    'emission': _PL + ['T', 'CH4', 'H2O', 'He_H2'],
    'transmission_default': _PL + ['T', 'H2O', 'CH4', 'He_H2'],
}
EXPECTED_DERIVED = {
    'transmission_iso': ['logg', 'avg_T', 'metallicity', 'mu'],
    'transmission_guillot': ['logg', 'avg_T', 'metallicity', 'mu'],
    'emission': ['log_F_bol', 'logg', 'avg_T', 'metallicity', 'mu'],
    'transmission_default': ['logg', 'avg_T', 'metallicity', 'mu'],
}


def model_behaviour(model, truth, kind):
    """things around the model that must not move"""
    wn = truth[0]
    # repeated evaluation and clipping
    again = model.model()
    same(again[1], truth[1], 'model() is repeatable')
    sub = np.linspace(2000, 5000, 10)
    clipped = model.model(wngrid=sub)
    w = ref_edges_width(sub)[1].max()
    mask = (wn >= sub.min()-w) & (wn <= sub.max()+w)
    same(clipped[0], wn[mask], 'clipped native grid')
    check(np.allclose(clipped[1], truth[1][mask], rtol=1e-12), 'clipped flux')
    unclipped = model.model(wngrid=sub, cutoff_grid=False)
    same(unclipped[0], wn, 'cutoff_grid=False keeps the grid')
    same(model.nativeWavenumberGrid, NATIVE, 'native grid')
    # changing a parameter changes the spectrum, and setting it back
    # restores it (no stale caching)
    key = 'T' if 'T' in model.fittingParameters else 'T_irr'
    old = model[key]
    model[key] = old*0.8
    changed = model.model()
    check(not np.allclose(changed[1], truth[1], rtol=1e-6), 'T matters')
    model[key] = old
    same(model.model()[1], truth[1], 'restored spectrum')
    old_r = model['planet_radius']
    model['planet_radius'] = old_r*1.1
    check(not np.allclose(model.model()[1], truth[1], rtol=1e-6), 'Rp')
    model['planet_radius'] = old_r
    check(np.allclose(model.model()[1], truth[1], rtol=1e-11, atol=0),
          'restored spectrum after Rp')
    # parameters are collected in the documented order of sources
    names = list(model.fittingParameters.keys())
    check(names == EXPECTED_FIT[kind], 'fitting names/order: %s' % names)
    dnames = list(model.derivedParameters.keys())
    check(dnames == EXPECTED_DERIVED[kind], 'derived names: %s' % dnames)
    check(np.isclose(model.derivedParameters['avg_T'][2](),
                     np.mean(model.temperatureProfile)), 'avg_T')
    # compute_error with a trivial sampler
    def samples():
        for w_ in (0.5, 0.5):
            yield w_
    fb = FluxBinner(np.linspace(1500, 9000, 11))
    pd, sd = model.compute_error(samples, binner=fb)
    check(set(pd.keys()) == {'temp_profile_std', 'active_mix_profile_std',
                             'inactive_mix_profile_std'}, 'profile std keys')
    check(set(sd.keys()) == {'native_std', 'binned_std'}, 'spectrum std keys')
    check(sd['native_std'].shape == wn.shape, 'native std shape')
    check(sd['binned_std'].shape == (11,), 'binned std shape')
    check(np.all(sd['native_std'] < 1e-8*np.abs(truth[1]).max() + 1e-12),
          'identical samples -> zero spread')
    pd, sd = model.compute_error(samples)
    check(set(sd.keys()) == {'native_std'}, 'no binner -> no binned std')


def loader_details():
    """constructor keywords seen by the loader, and the observation reader"""
    import inspect
    from taurex.util.hdf5 import get_klass_args, taurex_hdf5_to_observation
    from taurex.parameter.classfactory import ClassFactory
    cf = ClassFactory()
    klasses = list(cf.temperatureKlasses) + list(cf.pressureKlasses) + \
        list(cf.chemistryKlasses) + list(cf.gasKlasses) + \
        list(cf.planetKlasses) + list(cf.starKlasses) + \
        list(cf.modelKlasses) + list(cf.contributionKlasses)
    check(len(klasses) > 20, 'class factory found the built-in classes')

    class NoDefaults:
        def __init__(self, a, b):
            pass

    class KwOnly:
        def __init__(self, a, b=1, *args, c=2, **kw):
            pass

    class NoInit:
        pass

    for klass in klasses + [NoDefaults, KwOnly, NoInit]:
        spec = inspect.getfullargspec(klass.__init__)
        ref = [] if spec.defaults is None else \
            list(spec.args[len(spec.args)-len(spec.defaults):])
        got = get_klass_args(klass)
        check(list(got) == ref, 'constructor keywords of %s: %s vs %s' %
              (klass.__name__, got, ref))
    check(get_klass_args(KwOnly) == ['b'], 'keyword-only arguments ignored')
    check(get_klass_args(Isothermal) == ['T'], 'Isothermal keywords')

    # observation stored by the main program under Output/Spectra
    fname = os.path.join(TMP, 'obs.h5')
    wn = np.linspace(900.0, 5000.0, 9)
    sp = np.linspace(0.01, 0.02, 9)
    noise = np.full(9, 1e-4)
    width = np.linspace(10.0, 50.0, 9)
    with h5py.File(fname, 'w') as f:
        g = f.create_group('Output').create_group('Spectra')
        g['instrument_wngrid'] = wn
        g['instrument_spectrum'] = sp
        g['instrument_noise'] = noise
        g['instrument_wnwidth'] = width
    obs = taurex_hdf5_to_observation(fname)
    order = np.argsort(wn)
    raw = obs.rawData
    check(raw.shape == (9, 4), 'observation table shape')
    same(np.sort(raw[:, 0]), np.sort(10000/wn), 'observation wavelengths')
    row = {round(r[0], 9): r for r in raw}
    for i in range(9):
        r = row[round(10000/wn[i], 9)]
        check(r[1] == sp[i] and r[2] == noise[i], 'observation values')
        check(np.isclose(r[3], 10000*width[i]/wn[i]**2, rtol=1e-14),
              'observation wavelength width')
    with h5py.File(fname, 'w') as f:
        f.create_group('Output')
    try:
        taurex_hdf5_to_observation(fname)
    except KeyError as e:
        check('No instrument data' in str(e), 'KeyError message')
    else:
        check(False, 'missing spectra must raise KeyError')


def binner_reuse_and_edges():
    """one binner instance used on many inputs gives what a fresh one gives"""
    rng = np.random.RandomState(11)
    centres = np.sort(10000/np.linspace(1.2, 8.0, 17))
    widths = ref_edges_width(centres)[1]*0.9
    grids = [np.linspace(800.0, 12000.0, 300),
             10000/np.logspace(np.log10(0.7), np.log10(14.0), 500),  # desc.
             np.linspace(2000.0, 6000.0, 120)]                 # partial cover
    shared = FluxBinner(centres, wngrid_width=widths)
    shared_simple = SimpleBinner(centres, wngrid_width=widths)
    for rounds in range(2):
        for g in grids:
            flux = rng.rand(g.shape[0])
            tau = rng.rand(4, g.shape[0])
            err = rng.rand(g.shape[0])*0.1
            fresh = FluxBinner(centres, wngrid_width=widths)
            for data in (flux, tau):
                a = shared.bindown(g, data)
                b = fresh.bindown(g, data)
                same(a[1], b[1], 'shared binner == fresh binner')
                ref = ref_flux_bin(g, data, centres, widths)
                check(np.allclose(a[1], ref, rtol=1e-11, atol=0),
                      'flux binning vs brute force overlap mean')
                same(a[0], centres, 'centres returned')
                same(a[3], widths, 'widths returned')
            a = shared.bindown(g, flux, error=err)
            b = fresh.bindown(g, flux, error=err)
            same(a[2], b[2], 'errors: shared == fresh')
            # explicit native widths
            gw = ref_edges_width(np.sort(g))[1]
            gw_in = gw if g[0] < g[-1] else gw[::-1]
            c = shared.bindown(g, flux, grid_width=gw_in)
            if g[0] < g[-1]:
                check(np.allclose(c[1], a[1], rtol=1e-12, atol=0),
                      'explicit widths equal to the derived ones')
            s1 = shared_simple.bindown(g, flux)[1]
            with np.errstate(all='ignore'):
                s2 = SimpleBinner(centres, wngrid_width=widths) \
                    .bindown(g, flux)[1]
            check(np.array_equal(s1, s2, equal_nan=True), 'simple binner')
    # bins outside the native range stay zero
    outside = FluxBinner(np.array([100.0, 200.0, 5000.0, 30000.0, 40000.0]),
                         wngrid_width=10.0)
    g = grids[0]
    res = outside.bindown(g, np.ones_like(g))[1]
    check(res[0] == 0 and res[1] == 0 and res[4] == 0, 'uncovered bins are 0')
    check(np.isclose(res[2], 1.0), 'covered bin averages a constant to it')
    # integer centres and a scalar width
    ib = FluxBinner(np.array([3000, 1000, 2000]), wngrid_width=100)
    same(ib.bindown(g, np.ones_like(g))[0], np.array([1000, 2000, 3000]),
         'sorted integer centres')
    out = ib.generate_spectrum_output((g, np.ones_like(g),
                                       np.ones((2, g.shape[0])), None))
    same(out['binned_wnwidth'], np.array([100, 100, 100]), 'scalar width')
    same(out['binned_wlwidth'],
         10000*np.array([100, 100, 100])/np.array([1000, 2000, 3000])**2,
         'wavelength widths of integer grid')


def model_parts_and_native_grid():
    """the model hands back the very objects it was given; the native grid
    is the longest opacity grid (first among equals)"""
    from taurex.exceptions import InvalidModelException
    short = np.linspace(900.0, 15000.0, 150)
    twin = NATIVE.copy()
    oc.add_opacity(FakeOpacity('CO2', short, 3))
    oc.add_opacity(FakeOpacity('NH3', twin, 4))
    h2o_grid = oc['H2O'].wavenumberGrid
    nh3_grid = oc['NH3'].wavenumberGrid
    check(h2o_grid is not nh3_grid, 'distinct grid objects')

    planet = Planet(planet_mass=0.5)
    star = BlackbodyStar(temperature=6000.0)
    temp = Isothermal(T=1000.0)
    pres = SimplePressureProfile(nlayers=5, atm_min_pressure=1.0,
                                 atm_max_pressure=1e5)
    for order, expected in ((['CO2', 'H2O', 'NH3'], h2o_grid),
                            (['NH3', 'CO2', 'H2O'], nh3_grid),
                            (['CO2'], oc['CO2'].wavenumberGrid)):
        chem = TaurexChemistry(fill_gases='H2')
        for mol in order:
            chem.addGas(ConstantGas(mol, mix_ratio=1e-4))
        m = TransmissionModel(planet=planet, star=star,
                              temperature_profile=temp,
                              pressure_profile=pres, chemistry=chem)
        check(m.planet is planet and m.star is star and
              m.temperature is temp and m.pressure is pres and
              m.chemistry is chem, 'parts are the objects passed in')
        check(list(chem.activeGases) == order, 'active gas order')
        check(m.nativeWavenumberGrid is expected,
              'native grid for %s' % order)
    chem = TaurexChemistry(fill_gases='H2')
    m = TransmissionModel(chemistry=chem, nlayers=4)
    try:
        m.nativeWavenumberGrid
    except InvalidModelException:
        pass
    else:
        check(False, 'no active gas must raise InvalidModelException')

    # a model built from nothing uses the documented defaults
    d = TransmissionModel(nlayers=6)
    check(type(d.planet) is Planet and type(d.star) is BlackbodyStar and
          type(d.temperature) is Isothermal and
          type(d.pressure) is SimplePressureProfile and
          type(d.chemistry) is TaurexChemistry, 'default part types')
    check(d.temperature.isoTemperature == 1500, 'default temperature')
    check(list(d.chemistry.activeGases) == ['H2O', 'CH4'], 'default gases')
    check(d.nLayers == 6, 'default pressure profile uses nlayers')


# ----------------------------------------------------------------------

def main():
    dictionary_round_trip()
    loader_details()
    binner_reuse_and_edges()
    for kind in ('transmission_iso', 'transmission_guillot', 'emission',
                 'transmission_default'):
        model, truth = model_round_trip(kind)
        spectrum_outputs(model, truth, kind)
        contributions_and_profiles(model, truth, kind)
        model_behaviour(model, truth, kind)
    model_parts_and_native_grid()
    shutil.rmtree(TMP, ignore_errors=True)
    print('C16 demo: all %d checks passed' % CHECKS[0])


if __name__ == '__main__':
    try:
        main()
    finally:
        shutil.rmtree(TMP, ignore_errors=True)
