import os, sys; sys.path.insert(0, os.getcwd())
"""
C18 reviewer demo: parallel post-processing does not depend on how the
posterior samples are split across MPI ranks.

mpi4py is not installed, so an in-process stand-in is put in ``sys.modules``:
every simulated rank is a thread, ``COMM_WORLD.Get_rank()`` is thread local
and every inter-rank exchange (allgather / allreduce / bcast) goes through a
pickle round trip exactly like mpi4py's lower-case object API does.  The
real ``taurex.mpi`` wrappers run on top of that stand-in.

Checked, always against an independent two-pass numpy calculation:

 0. the taurex.mpi wrappers (allgather, allreduce, broadcast, barrier,
    get_rank, nprocs) over the stand-in and their serial fallbacks;
 1. OnlineVariance.parallelVariance() on every simulated rank, for many rank
    counts, sample counts, weights, value shapes and sample->rank assignments
    (round robin, blocks, random, ranks with zero or one sample);
 2. OnlineVariance public accumulators / variance / sampleVariance / reset and
    combine_variance() called directly;
 3. Optimizer.generate_profiles() (-> SimpleForwardModel.compute_error) and
    Optimizer.compute_derived_trace() of a small real TransmissionModel for
    several rank counts, plus Optimizer.generate_solution() end-to-end.

Exit status 0 means every check passed.
"""
import logging
import pickle
import random
import threading
import traceback
import types
import warnings

import numpy as np

warnings.filterwarnings('ignore')
sys.setswitchinterval(1e-4)     # rank threads mostly wait for each other

import taurex                                            # noqa: E402
assert os.path.realpath(taurex.__file__).startswith(
    os.path.realpath(os.getcwd()) + os.sep), taurex.__file__

import taurex.log                                        # noqa: E402
taurex.log.setLogLevel(logging.ERROR)

from taurex import mpi as tmpi                           # noqa: E402
from taurex.util.math import OnlineVariance              # noqa: E402

# get_rank/nprocs are memoised per process; with ranks simulated by threads
# inside one process the memo has to be bypassed (the undecorated functions
# still run the package's own code on top of the stand-in).
for _name in ('get_rank', 'nprocs'):
    _f = getattr(tmpi, _name)
    setattr(tmpi, _name, getattr(_f, '__wrapped__', _f))

N_CHECKS = [0]


def check(cond, msg):
    N_CHECKS[0] += 1
    if not cond:
        raise AssertionError(msg)


# --------------------------------------------------------------------------
# simulated MPI
# --------------------------------------------------------------------------
class SimWorld:
    """COMM_WORLD stand-in; one thread per rank, pickled exchanges."""

    def __init__(self, size):
        self.size = size
        self.tls = threading.local()
        self.barrier = threading.Barrier(size)
        self.slots = [None] * size
        self.n_exchanges = 0

    # -- identity
    def Get_rank(self):
        return self.tls.rank

    def Get_size(self):
        return self.size

    def Barrier(self):
        self.barrier.wait(timeout=60)

    # -- object collectives (pickle based, as in mpi4py)
    def allgather(self, obj):
        me = self.tls.rank
        self.slots[me] = pickle.dumps(obj, pickle.HIGHEST_PROTOCOL)
        self.barrier.wait(timeout=60)
        out = [pickle.loads(s) for s in self.slots]
        self.barrier.wait(timeout=60)
        if me == 0:
            self.n_exchanges += 1
        return out

    def allreduce(self, obj, op=None):
        check(op is SIM_SUM, 'only SUM is ever requested')
        parts = self.allgather(obj)
        total = parts[0]
        for p in parts[1:]:
            total = total + p
        return total

    def bcast(self, obj, root=0):
        return self.allgather(obj if self.tls.rank == root else None)[root]

    # -- buffer broadcast
    def Bcast(self, buf, root=0):
        src = self.allgather(np.array(buf) if self.tls.rank == root else None)
        buf[...] = src[root]


SIM_SUM = object()


def install_world(world):
    mod = types.ModuleType('mpi4py')
    sub = types.ModuleType('mpi4py.MPI')
    sub.COMM_WORLD = world
    sub.SUM = SIM_SUM
    mod.MPI = sub
    sys.modules['mpi4py'] = mod
    sys.modules['mpi4py.MPI'] = sub


def remove_world():
    sys.modules.pop('mpi4py', None)
    sys.modules.pop('mpi4py.MPI', None)


def run_ranks(size, fn):
    """Run fn(rank) on `size` simulated ranks; list of results by rank.
    size == 0 means: no mpi4py at all (plain single process)."""
    if size == 0:
        remove_world()
        check(tmpi.nprocs() == 1 and tmpi.get_rank() == 0, 'serial fallback')
        return [fn(0)]
    world = SimWorld(size)
    install_world(world)
    results = [None] * size
    errors = []

    def target(r):
        world.tls.rank = r
        try:
            check(tmpi.get_rank() == r, 'rank seen through taurex.mpi')
            check(tmpi.nprocs() == size, 'size seen through taurex.mpi')
            results[r] = fn(r)
        except BaseException:
            errors.append((r, traceback.format_exc()))
            world.barrier.abort()

    threads = [threading.Thread(target=target, args=(r,)) for r in range(size)]
    for t in threads:
        t.start()
    for t in threads:
        t.join(120)
    remove_world()
    if errors:
        errors.sort()
        raise AssertionError('rank %d failed:\n%s' % errors[0])
    return results


# --------------------------------------------------------------------------
# independent reference
# --------------------------------------------------------------------------
def two_pass(values, weights):
    """Weighted mean and (population) variance, two passes, plain numpy."""
    v = np.asarray(values, dtype=np.float64)
    w = np.asarray(weights, dtype=np.float64)
    wsum = w.sum()
    wb = w.reshape((-1,) + (1,) * (v.ndim - 1))
    mean = (wb * v).sum(axis=0) / wsum
    var = (wb * (v - mean) ** 2).sum(axis=0) / wsum
    return mean, var


def close(a, b, scale, rtol=1e-9):
    a = np.asarray(a, dtype=np.float64)
    b = np.asarray(b, dtype=np.float64)
    if a.shape != b.shape:
        return False
    return bool(np.allclose(a, b, rtol=rtol, atol=rtol * scale))


def same(a, b):
    a = np.asarray(a)
    b = np.asarray(b)
    return a.shape == b.shape and bool(np.array_equal(a, b, equal_nan=True))


def is_all_nan(x):
    return bool(np.all(np.isnan(np.asarray(x, dtype=np.float64))))


# --------------------------------------------------------------------------
# 0. the taurex.mpi wrappers themselves
# --------------------------------------------------------------------------
def part0():
    # serial fallbacks (no mpi4py importable)
    remove_world()
    token = [1.0, np.arange(3.0)]
    arr = np.arange(4.0)
    check(tmpi.allgather(token)[0] is token and len(tmpi.allgather(token))
          == 1, 'serial allgather is [value]')
    check(tmpi.allreduce(token, 'SUM') is token, 'serial allreduce')
    check(tmpi.broadcast(token) is token and tmpi.broadcast(arr) is arr,
          'serial broadcast')
    check(tmpi.barrier() is None, 'serial barrier')
    check(tmpi.get_rank() == 0 and tmpi.nprocs() == 1, 'serial rank/size')
    check(tmpi.only_master_rank(lambda: 'ran')() == 'ran', 'serial master')

    class OtherComm:
        def Get_rank(self):
            return 17

    for size in (1, 2, 5):
        def fn(rank):
            out = {}
            out['gather'] = tmpi.allgather((rank, np.full(2, float(rank))))
            out['reduce'] = tmpi.allreduce([rank, rank * 10.0], 'SUM')
            out['reduce_lower'] = tmpi.allreduce([rank], op='sum')
            root = size - 1
            mine = np.arange(6.0).reshape(2, 3) * (rank + 1)
            keep = mine.copy()
            got = tmpi.broadcast(mine, rank=root)
            check(same(mine, keep), 'broadcast left the input alone')
            check(got is not mine, 'broadcast returns a fresh array')
            out['bcast_array'] = got
            out['bcast_obj'] = tmpi.broadcast(
                [('p', rank)] if rank == 0 else None)
            tmpi.barrier()
            out['other'] = tmpi.get_rank(OtherComm())
            out['master'] = tmpi.only_master_rank(lambda: 'ran')()
            try:
                tmpi.allreduce([rank], 'MAX')
                out['max'] = 'no error'
            except NotImplementedError:
                out['max'] = 'NotImplementedError'
            return out

        res = run_ranks(size, fn)
        for r, out in enumerate(res):
            check([g[0] for g in out['gather']] == list(range(size))
                  and all(same(g[1], np.full(2, float(i)))
                          for i, g in enumerate(out['gather'])),
                  'allgather in rank order')
            check(out['reduce'] == sum(([i, i * 10.0] for i in range(size)),
                                       []), 'allreduce SUM concatenates')
            check(out['reduce_lower'] == list(range(size)), 'op is caseless')
            check(same(out['bcast_array'],
                       np.arange(6.0).reshape(2, 3) * size), 'Bcast of root')
            check(out['bcast_obj'] == [('p', 0)], 'bcast of root object')
            check(out['other'] == 17, 'get_rank(comm)')
            check(out['master'] == ('ran' if r == 0 else None), 'master only')
            check(out['max'] == 'NotImplementedError', 'unknown reduction')


# --------------------------------------------------------------------------
# 1. OnlineVariance.parallelVariance on every rank
# --------------------------------------------------------------------------
def assignments(n, size, rng):
    """Several ways of giving n samples to `size` ranks (lists of indices)."""
    out = {}
    out['round-robin'] = [list(range(r, n, size)) for r in range(size)]
    edges = np.linspace(0, n, size + 1).astype(int)
    out['blocks'] = [list(range(edges[r], edges[r + 1])) for r in range(size)]
    owner = rng.randint(0, size, size=n)
    out['random'] = [[i for i in range(n) if owner[i] == r]
                     for r in range(size)]
    # everything but one sample on the last rank, one sample on rank 0
    lop = [[] for _ in range(size)]
    for i in range(n):
        lop[0 if i == 0 else size - 1].append(i)
    out['lopsided'] = lop
    perm = list(rng.permutation(n))
    out['shuffled-rr'] = [perm[r::size] for r in range(size)]
    return out


def make_weights(kind, n, rng):
    if kind == 'unit':
        return [1.0] * n
    if kind == 'uniform':
        return list(rng.uniform(0.1, 2.0, size=n))          # np.float64
    if kind == 'posterior':
        w = np.exp(-0.5 * rng.uniform(0, 30, size=n))
        return [float(x) for x in (w / w.sum())]
    if kind == 'tiny-mixed':
        w = rng.uniform(0.5, 1.5, size=n)
        w[::3] = 1e-300
        if n > 1:
            w[1] = 0.7
        return list(w)
    raise ValueError(kind)


def part1():
    rng = np.random.RandomState(20240914)
    shapes = [(), (6,), (3, 4)]
    n_cfg = 0
    for size in (1, 2, 3, 4, 5, 7):
        for n in (0, 1, 2, 3, 5, 11):
            for wkind in ('unit', 'uniform', 'posterior', 'tiny-mixed'):
                shape = shapes[(size + n + len(wkind)) % len(shapes)]
                vals = 5.0 + 2.0 * rng.standard_normal((n,) + shape)
                wts = make_weights(wkind, n, rng)
                for aname, assign in assignments(n, size, rng).items():
                    check(sorted(sum(assign, [])) == list(range(n)),
                          'harness: a partition')

                    def fn(rank):
                        ov = OnlineVariance()
                        for i in assign[rank]:
                            x = float(vals[i]) if shape == () \
                                else vals[i].copy()
                            ov.update(x, weight=wts[i])
                        return ov.parallelVariance()

                    res = run_ranks(size, fn)
                    tag = 'size=%d n=%d w=%s shape=%s %s' % (
                        size, n, wkind, shape, aname)
                    for r in range(1, size):
                        check(same(res[0], res[r]),
                              'ranks disagree: ' + tag)
                    if n < 2:
                        check(np.ndim(res[0]) == 0 and is_all_nan(res[0]),
                              'fewer than two samples -> NaN: ' + tag)
                    else:
                        _, var = two_pass(vals, wts)
                        check(close(res[0], var, scale=4.0),
                              'pooled variance != two-pass: %s\n%r\n%r'
                              % (tag, res[0], var))
                        check(bool(np.all(np.asarray(res[0]) >= 0.0)),
                              'negative variance: ' + tag)
                    n_cfg += 1

    # no mpi4py at all: gather is the identity
    for n in (0, 1, 2, 9):
        vals = 3.0 + rng.standard_normal((n, 5))
        wts = make_weights('uniform', n, rng)

        def fn(rank):
            ov = OnlineVariance()
            for i in range(n):
                ov.update(vals[i].copy(), weight=wts[i])
            return ov.parallelVariance(), ov.variance

        (pv, v), = run_ranks(0, fn)
        if n < 2:
            check(is_all_nan(pv) and is_all_nan(v), 'serial NaN')
        else:
            check(close(pv, two_pass(vals, wts)[1], 1.0), 'serial pooled')
            check(close(v, two_pass(vals, wts)[1], 1.0), 'serial variance')
        n_cfg += 1
    return n_cfg


# --------------------------------------------------------------------------
# 2. accumulators and combine_variance used directly
# --------------------------------------------------------------------------
def part2():
    rng = np.random.RandomState(7)
    remove_world()
    ov = OnlineVariance()
    check(ov.count == 0 and ov.wcount == 0 and ov.wcount2 == 0, 'fresh')
    check(ov.mean is None and ov.M2 is None, 'fresh mean/M2')
    check(np.isnan(ov.variance) and np.isnan(ov.sampleVariance), 'fresh var')
    vals = rng.uniform(-1, 3, size=(8, 4))
    wts = rng.uniform(0.2, 3.0, size=8)
    for k in range(8):
        ov.update(vals[k].copy(), weight=wts[k])
        mean, var = two_pass(vals[:k + 1], wts[:k + 1])
        check(ov.count == k + 1, 'count')
        check(close(ov.wcount, wts[:k + 1].sum(), 1.0), 'wcount')
        check(close(ov.wcount2, (wts[:k + 1] ** 2).sum(), 1.0), 'wcount2')
        check(close(ov.mean, mean, 1.0), 'mean')
        check(close(ov.M2, var * wts[:k + 1].sum(), 1.0), 'M2')
        if k == 0:
            check(np.ndim(ov.variance) == 0 and np.isnan(ov.variance),
                  'one sample -> scalar NaN variance')
            check(np.isnan(ov.sampleVariance), 'one sample -> NaN')
        else:
            check(close(ov.variance, var, 1.0), 'variance')
            check(close(ov.sampleVariance,
                        var * wts[:k + 1].sum() / (wts[:k + 1].sum() - 1),
                        1.0), 'sampleVariance')
    # the value handed to update() must not be modified or aliased
    x = np.array([1.0, 2.0, 3.0])
    keep = x.copy()
    ov2 = OnlineVariance()
    ov2.update(x, 2.0)
    ov2.update(x, 1.0)
    check(same(x, keep), 'update left its argument alone')
    ov2.update(np.array([4.0, 4.0, 4.0]), 1.0)
    check(same(x, keep), 'no aliasing of the first value')
    ov.reset()
    check(ov.count == 0 and ov.wcount == 0 and ov.mean is None
          and ov.M2 is None and np.isnan(ov.variance), 'reset')
    ov.update(2.5)
    ov.update(3.5)
    check(close(ov.mean, 3.0, 1.0) and close(ov.variance, 0.25, 1.0)
          and close(ov.sampleVariance, 0.5, 1.0), 'default unit weight')

    # combine_variance directly: per-group moments -> pooled moments
    for trial in range(20):
        ngroups = 1 + trial % 5
        shape = [(), (5,), (2, 3)][trial % 3]
        groups, avgs, variances, counts = [], [], [], []
        allv, allw = [], []
        for g in range(ngroups):
            k = [0, 1, 2, 4][(trial + g) % 4]
            if g == ngroups - 1 and not allv:
                k = 3
            v = rng.uniform(0, 10, size=(k,) + shape)
            w = rng.uniform(0.1, 1.0, size=k)
            allv.extend(v)
            allw.extend(w)
            if k == 0:
                avgs.append(np.nan)
                variances.append(np.nan)
                counts.append(0.0)
            else:
                m, s = two_pass(v, w)
                avgs.append(m if shape else float(m))
                variances.append(np.nan if k < 2 else (s if shape
                                                       else float(s)))
                counts.append(float(w.sum()))
        # through a pickle round trip as after a gather
        avgs, variances, counts = pickle.loads(
            pickle.dumps((avgs, variances, counts)))
        keep_avgs = pickle.loads(pickle.dumps(avgs))
        mean, var = OnlineVariance().combine_variance(avgs, variances, counts)
        rmean, rvar = two_pass(allv, allw)
        check(close(mean, rmean, 10.0), 'combine_variance mean %d' % trial)
        check(close(var, rvar, 10.0), 'combine_variance var %d' % trial)
        check(all(same(a, b) for a, b in zip(avgs, keep_avgs)),
              'combine_variance left the gathered means alone')


# --------------------------------------------------------------------------
# 3. Optimizer.generate_profiles / compute_derived_trace, real forward model
# --------------------------------------------------------------------------
def make_toy_opacities():
    from taurex.cache import OpacityCache
    from taurex.opacity import InterpolatingOpacity
    from taurex.util.util import create_grid_res

    class ToyOpacity(InterpolatingOpacity):
        def __init__(self, mol, seed):
            super().__init__('TOY')
            rng = np.random.RandomState(seed)
            self._mol = mol
            self._wn = create_grid_res(40, 1000, 20000)[:, 0]
            self._T = np.linspace(100, 4000, 6)
            self._P = np.logspace(-6, 7, 5)
            self._x = 10 ** rng.uniform(-25, -21,
                                        size=(5, 6, self._wn.shape[0]))
        moleculeName = property(lambda s: s._mol)
        xsecGrid = property(lambda s: s._x)
        wavenumberGrid = property(lambda s: s._wn)
        temperatureGrid = property(lambda s: s._T)
        pressureGrid = property(lambda s: s._P)

    OpacityCache().clear_cache()
    OpacityCache().add_opacity(ToyOpacity('H2O', 1))
    OpacityCache().add_opacity(ToyOpacity('CH4', 2))


def build_model():
    from taurex.model import TransmissionModel
    from taurex.planet import Planet
    from taurex.stellar import BlackbodyStar
    from taurex.temperature import Isothermal
    from taurex.chemistry import TaurexChemistry, ConstantGas
    from taurex.contributions import RayleighContribution, \
        AbsorptionContribution
    chem = TaurexChemistry(fill_gases=['H2', 'He'], ratio=0.17)
    chem.addGas(ConstantGas('H2O', 1e-3))
    chem.addGas(ConstantGas('CH4', 1e-4))
    chem.addGas(ConstantGas('N2', 1e-3))
    m = TransmissionModel(planet=Planet(), star=BlackbodyStar(),
                          temperature_profile=Isothermal(T=1200.0),
                          chemistry=chem, nlayers=10,
                          atm_min_pressure=1e-1, atm_max_pressure=1e6)
    m.add_contribution(AbsorptionContribution())
    m.add_contribution(RayleighContribution())
    m.build()
    return m


FIT = ['planet_radius', 'T', 'H2O']          # H2O is fitted in log space
FIT_LOG = [False, False, True]
DERIVED = ['logg', 'avg_T', 'mu']


def build_observation(model):
    from taurex.spectrum import ArraySpectrum
    wn, depth, _, _ = model.model()
    wl = 10000 / wn[::4][::-1]
    return ArraySpectrum(np.column_stack(
        [wl, depth[::4][::-1], np.full(wl.shape, 1e-5)]))


def build_optimizer(samples, weights, fraction):
    from taurex.optimizer.optimizer import Optimizer

    class ReplayOptimizer(Optimizer):
        """Hands out a fixed posterior instead of sampling one."""

        def compute_fit(self):
            pass

        def get_samples(self, solution_id):
            return samples

        def get_weights(self, solution_id):
            return weights

        def get_solution(self):
            best = samples[int(np.argmax(weights))]
            med = np.median(samples, axis=0)
            yield 0, best, med, [('demo_extra', 42)]

    model = build_model()
    obs = build_observation(model)
    opt = ReplayOptimizer('replay', observed=obs, model=model,
                          sigma_fraction=fraction)
    for name in FIT:
        opt.enable_fit(name)
    opt.set_boundary('planet_radius', [0.5, 2.0])
    opt.set_boundary('T', [500.0, 2500.0])
    opt.set_boundary('H2O', [1e-6, 1e-1])
    for name in DERIVED:
        opt.enable_derived(name)
    opt.compile_params()
    check(opt.fit_names == ['planet_radius', 'T', 'log_H2O'], 'fit names')
    check(opt.derived_names == DERIVED, 'derived names %r'
          % (opt.derived_names,))
    return opt, model, obs


class Reference:
    """Every sample evaluated once on a private model, two-pass statistics."""

    def __init__(self, samples, weights):
        self.model = build_model()
        self.obs = build_observation(self.model)
        self.binner = self.obs.create_binner()
        self.samples = samples
        self.weights = weights
        self.rows = []
        self.derived = []
        for s in samples:
            self._set(s)
            grid, native, _, _ = self.model.model(
                wngrid=self.obs.wavenumberGrid, cutoff_grid=False)
            chem = self.model.chemistry
            self.rows.append({
                'temp_profile_std': np.array(self.model.temperatureProfile),
                'active_mix_profile_std': np.array(chem.activeGasMixProfile),
                'inactive_mix_profile_std':
                    np.array(chem.inactiveGasMixProfile),
                'native_std': np.array(native),
                'binned_std': np.array(self.binner.bindown(grid, native)[1]),
            })
            self._set(s)
            self.model.initialize_profiles()
            self.derived.append(
                [self.model.derivedParameters[d][2]() for d in DERIVED])
        self.derived = np.array(self.derived, dtype=np.float64)

    def _set(self, s):
        for name, is_log, v in zip(FIT, FIT_LOG, s):
            self.model.fittingParameters[name][3](10 ** v if is_log else v)

    def std(self, key, chosen):
        if len(chosen) < 2:
            return None
        stack = np.array([self.rows[i][key] for i in chosen])
        w = np.array([self.weights[i] + 1e-300 for i in chosen])
        return np.sqrt(two_pass(stack, w)[1]), np.abs(stack).max()

    def derived_summary(self, j):
        x = self.derived[:, j]
        w = np.asarray(self.weights, dtype=np.float64)
        order = np.argsort(x)
        cdf = np.cumsum(w[order])
        cdf = cdf / cdf[-1]
        q16, q50, q84 = np.interp([0.16, 0.5, 0.84], cdf, x[order])
        return {'value': q50, 'sigma_m': q50 - q16, 'sigma_p': q84 - q50,
                'trace': x, 'mean': (w * x).sum() / w.sum()}


PROFILE_KEYS = ['temp_profile_std', 'active_mix_profile_std',
                'inactive_mix_profile_std']
SPECTRUM_KEYS = ['native_std', 'binned_std']


def part3():
    make_toy_opacities()
    rng = np.random.RandomState(99)
    n_cfg = 0
    for n, fraction, sizes in [(7, 1.0, (0, 1, 2, 3, 5, 8)),
                               (12, 0.5, (0, 2, 4, 7)),
                               (2, 1.0, (1, 3)),
                               (1, 1.0, (0, 2))]:
        samples = np.column_stack([rng.uniform(0.8, 1.4, n),
                                   rng.uniform(800.0, 2000.0, n),
                                   rng.uniform(-5.0, -2.0, n)])
        weights = np.exp(-0.5 * rng.uniform(0, 12, n))
        weights = weights / weights.sum()
        ref = Reference(samples, weights)
        seed = 4242 + n
        # which samples the (unchanged) taurex.util.util.random_int_iter
        # draws for this seed: random.sample(range(n), int(n*fraction))
        random.seed(seed)
        chosen = random.sample(range(n), int(n * fraction))
        check(len(set(chosen)) == len(chosen), 'harness: distinct draws')

        for size in sizes:
            random.seed(seed)

            def fn(rank):
                opt, model, obs = build_optimizer(samples, weights, fraction)
                prof, spec = opt.generate_profiles(0, obs.wavenumberGrid)
                derived = opt.compute_derived_trace(0)
                return prof, spec, derived

            res = run_ranks(size, fn)
            tag = 'n=%d fraction=%s ranks=%d' % (n, fraction, size)
            for r, (prof, spec, derived) in enumerate(res):
                check(sorted(prof) == sorted(PROFILE_KEYS),
                      'profile keys %r' % (sorted(prof),))
                check(sorted(spec) == sorted(SPECTRUM_KEYS),
                      'spectrum keys %r' % (sorted(spec),))
                for key, got in list(prof.items()) + list(spec.items()):
                    check(same(got, {**res[0][0], **res[0][1]}[key]),
                          'rank %d disagrees with rank 0 on %s: %s'
                          % (r, key, tag))
                    expect = ref.std(key, chosen)
                    if expect is None:
                        check(is_all_nan(got), '%s should be NaN: %s'
                              % (key, tag))
                    else:
                        check(close(got, expect[0], expect[1], rtol=1e-8),
                              '%s != two-pass std: %s\n%r\n%r'
                              % (key, tag, got, expect[0]))
                check(sorted(derived) == sorted(d + '_derived'
                                                for d in DERIVED),
                      'derived keys %r' % (sorted(derived),))
                for j, d in enumerate(DERIVED):
                    got = derived[d + '_derived']
                    exp = ref.derived_summary(j)
                    check(sorted(got) == sorted(exp), 'summary keys')
                    check(np.shape(got['trace']) == (n,),
                          'each sample exactly once: ' + tag)
                    for k in exp:
                        check(close(got[k], exp[k],
                                    np.abs(exp['trace']).max(), rtol=1e-11),
                              'derived %s[%s]: %s\n%r\n%r'
                              % (d, k, tag, got[k], exp[k]))
            n_cfg += 1

    # end to end through generate_solution() (what fit() returns)
    n = 6
    samples = np.column_stack([rng.uniform(0.8, 1.4, n),
                               rng.uniform(800.0, 2000.0, n),
                               rng.uniform(-5.0, -2.0, n)])
    weights = rng.uniform(0.1, 1.0, n)
    ref = Reference(samples, weights)
    solutions = {}
    for size in (0, 4):
        random.seed(5)

        def fn(rank):
            opt, model, obs = build_optimizer(samples, weights, 1.0)
            return opt.generate_solution()

        solutions[size] = run_ranks(size, fn)
    for size, res in solutions.items():
        for sol in res:
            s0 = sol['solution0']
            check(s0['demo_extra'] == 42, 'extra values kept')
            for key in PROFILE_KEYS:
                e = ref.std(key, range(n))
                check(close(s0['Profiles'][key], e[0], e[1], rtol=1e-8),
                      'generate_solution Profiles/%s ranks=%d' % (key, size))
            for key in SPECTRUM_KEYS:
                e = ref.std(key, range(n))
                check(close(s0['Spectra'][key], e[0], e[1], rtol=1e-8),
                      'generate_solution Spectra/%s ranks=%d' % (key, size))
            for j, d in enumerate(DERIVED):
                exp = ref.derived_summary(j)
                got = s0['derived_params'][d + '_derived']
                for k in exp:
                    check(close(got[k], exp[k], np.abs(exp['trace']).max(),
                                rtol=1e-11),
                          'generate_solution derived %s[%s] ranks=%d'
                          % (d, k, size))
            for grp in ('Profiles', 'Spectra'):
                for key, val in solutions[0][0]['solution0'][grp].items():
                    if isinstance(val, np.ndarray) and val.dtype.kind == 'f':
                        check(close(s0[grp][key], val,
                                    np.abs(val).max() + 1e-300, rtol=1e-8),
                              'generate_solution %s/%s ranks=%d'
                              % (grp, key, size))
    return n_cfg


def main():
    part0()
    print('part 0: taurex.mpi wrappers behave over the simulated '
          'communicator and fall back serially without mpi4py')
    c1 = part1()
    print('part 1: %d OnlineVariance configurations agree with the '
          'two-pass variance on every rank' % c1)
    part2()
    print('part 2: accumulators, variance, sampleVariance, reset, '
          'combine_variance agree with numpy')
    c3 = part3()
    print('part 3: %d optimizer configurations (profiles, spectra, derived '
          'traces) agree with a serial two-pass calculation' % c3)
    print('OK - %d checks' % N_CHECKS[0])


if __name__ == '__main__':
    main()
