import os, sys; sys.path.insert(0, os.getcwd())
"""
C14 demo: one physical table, many containers.

A table of cross-sections sigma[P, T, wn] (SI: Pa, K, cm-1, m2) is written as
  * a TauREx pickle            (p in bar, xsec in cm2)
  * HDF5 with p in bar / Pa / atm / mmHg / mbar (xsec in cm2)
  * Exo-Transmit text          (p in bar, wavelength in m, xsec in m2,
                                wavelengths ascending = wavenumbers descending)
and, for k-tables, as pickle and HDF5.  Every reader has to give back the same
axes (SI), the same table with the axes oriented as in the file, the sanitised
molecule name, and -- through the cache -- the same opacity(T, P) as an
independent bilinear / exp-linear interpolation written here from scratch.

Only public API is used, so the script is insensitive to internal names.
"""
import pickle
import shutil
import tempfile
import warnings

import numpy as np
import h5py

import taurex
assert os.path.abspath(taurex.__file__).startswith(os.getcwd() + os.sep), \
    taurex.__file__
import taurex.log
taurex.log.disableLogging()
warnings.simplefilter('ignore')

from taurex.cache import OpacityCache, GlobalCache
from taurex.cache.ktablecache import KTableCache
from taurex.opacity import PickleOpacity, HDF5Opacity, ExoTransmitOpacity
from taurex.opacity.ktables import PickleKTable, HDF5KTable
from taurex.util.util import sanitize_molecule_string

CHECKS = [0]


def ok(cond, msg):
    CHECKS[0] += 1
    if not cond:
        print('FAIL:', msg)
        sys.exit(1)


def close(a, b, msg, rtol=1e-10, atol=0.0):
    a = np.asarray(a)
    b = np.asarray(b)
    ok(a.shape == b.shape, '%s: shape %s != %s' % (msg, a.shape, b.shape))
    ok(np.allclose(a, b, rtol=rtol, atol=atol), '%s: values differ (max rel %g)'
       % (msg, np.max(np.abs(a - b)/np.maximum(np.abs(b), 1e-300))))


# --------------------------------------------------------------------------
# the physical table
# --------------------------------------------------------------------------
def rounded(x, digits=8):
    """values that survive a trip through '%.{digits}e' text exactly"""
    return np.array([float(('%.' + str(digits) + 'e') % v)
                     for v in np.ravel(x)]).reshape(np.shape(x))


def make_table(seed, n_p, n_t, n_wn):
    rng = np.random.default_rng(seed)
    p_bar = rounded(np.logspace(-4, 1.5, n_p))
    t = rounded(np.sort(rng.uniform(150, 2500, n_t)), 4)
    wn = rounded(np.sort(rng.uniform(300, 9000, n_wn)))
    # m2; depends on all three axes, not symmetric in any pair of them
    sig = 10.0**rng.uniform(-30, -24, (n_p, n_t, n_wn))
    sig *= (1.0 + np.arange(n_p))[:, None, None]
    sig *= (1.0 + 0.1*np.arange(n_t))[None, :, None]
    return dict(p_pa=p_bar*1e5, p_bar=p_bar, t=t, wn=wn, sig_m2=rounded(sig))


PRESSURE_UNITS = {           # name -> Pa per unit (CODATA / SI definitions)
    'bar': 1e5, 'Pa': 1.0, 'atm': 101325.0, 'mbar': 100.0,
    'mmHg': 133.322387415,
}


def write_pickle(tab, path):
    with open(path, 'wb') as f:
        pickle.dump({'wno': tab['wn'], 't': tab['t'], 'p': tab['p_bar'],
                     'xsecarr': tab['sig_m2']*1e4, 'name': 'ignored'}, f)


def write_hdf5(tab, path, unit, mol, name_kind='bytes', doi=None):
    with h5py.File(path, 'w') as f:
        f.create_dataset('bin_edges', data=tab['wn'])
        f.create_dataset('t', data=tab['t'])
        p = f.create_dataset('p', data=tab['p_pa']/PRESSURE_UNITS[unit])
        p.attrs['units'] = unit
        f.create_dataset('xsecarr', data=tab['sig_m2']*1e4)
        if name_kind == 'bytes':
            f.create_dataset('mol_name', data=np.bytes_(mol))
        elif name_kind == 'array':
            f.create_dataset('mol_name', data=np.array([mol.encode()]))
        else:
            f.create_dataset('mol_name', data=mol,
                             dtype=h5py.string_dtype())
        if doi is not None:
            f.create_dataset('DOI', data=np.array([doi.encode()]))


def write_exotransmit(tab, path):
    order = np.argsort(-tab['wn'])          # wavelength ascending
    with open(path, 'w') as f:
        f.write(' '.join('%.4e' % v for v in tab['t']) + '\n')
        f.write(' '.join('%.8e' % v for v in tab['p_bar']) + '\n')
        for k in order:
            f.write('%.17e\n' % (1e-2/tab['wn'][k]))       # metres
            for i, p in enumerate(tab['p_bar']):
                f.write('%.8e ' % p + ' '.join(
                    '%.8e' % v for v in tab['sig_m2'][i, :, k]) + '\n')


# --------------------------------------------------------------------------
# independent interpolation (log10 P linear; T linear, or ln(sigma) vs 1/T)
# --------------------------------------------------------------------------
def bracket(axis, x):
    hi = int(np.clip(np.searchsorted(axis, x), 1, len(axis) - 1))
    return hi - 1, hi


def reference(tab, T, P, mode, sig=None):
    sig = tab['sig_m2'] if sig is None else sig
    lp = np.log10(tab['p_pa'])
    x = np.log10(P)
    t = tab['t']
    if x >= lp[-1] and T >= t[-1]:
        return sig[-1, -1]
    ok(lp[0] <= x < lp[-1] and t[0] <= T < t[-1], 'reference: interior only')
    p0, p1 = bracket(lp, x)
    t0, t1 = bracket(t, T)
    f = (x - lp[p0])/(lp[p1] - lp[p0])
    a = sig[p0, t0] + f*(sig[p1, t0] - sig[p0, t0])
    b = sig[p0, t1] + f*(sig[p1, t1] - sig[p0, t1])
    if mode == 'linear':
        g = (T - t[t0])/(t[t1] - t[t0])
        return a + g*(b - a)
    w = (1.0/T - 1.0/t[t0])/(1.0/t[t1] - 1.0/t[t0])
    return np.exp((1 - w)*np.log(a) + w*np.log(b))


def sample_points(tab, seed, n):
    rng = np.random.default_rng(seed)
    T = rng.uniform(tab['t'][0], tab['t'][-1]*0.999, n)
    P = 10**rng.uniform(np.log10(tab['p_pa'][0]),
                        np.log10(tab['p_pa'][-1]) - 1e-3, n)
    return list(zip(T, P))


def check_reader(op, tab, mol, label, rtol=1e-10):
    ok(op.moleculeName == mol, '%s: molecule %r != %r'
       % (label, op.moleculeName, mol))
    close(op.wavenumberGrid, tab['wn'], label + ' wavenumber axis', 1e-13)
    close(op.temperatureGrid, tab['t'], label + ' temperature axis', 1e-13)
    close(op.pressureGrid, tab['p_pa'], label + ' pressure axis [Pa]', 1e-9)
    close(np.asarray(op.xsecGrid[...])/1e4, tab['sig_m2'],
          label + ' table (P,T,wn)', rtol)
    ok(op.pressureMin == op.pressureGrid[0] and
       op.pressureMax == op.pressureGrid[-1], label + ' pressure bounds')
    # every node of the table is recovered
    for i in (0, len(tab['p_pa'])//2, len(tab['p_pa']) - 1):
        for j in (0, len(tab['t'])//2, len(tab['t']) - 1):
            close(op.opacity(tab['t'][j], tab['p_pa'][i]),
                  tab['sig_m2'][i, j], '%s node (%d,%d)' % (label, i, j),
                  1e-7)
    # beyond the hot, dense corner the last entry is used
    close(op.opacity(tab['t'][-1]*2, tab['p_pa'][-1]*10),
          tab['sig_m2'][-1, -1], label + ' clamp', rtol)


workdir = tempfile.mkdtemp(prefix='c14demoA')
try:
    # ---------------------------------------------------------------------
    # 1. direct readers, several table shapes, all containers
    # ---------------------------------------------------------------------
    shapes = [(3, 4, 7), (5, 2, 12), (2, 6, 3)]
    for seed, shape in enumerate(shapes):
        tab = make_table(100 + seed, *shape)
        d = os.path.join(workdir, 'direct%d' % seed)
        os.makedirs(d)
        readers = {}

        fn = os.path.join(d, '1H2-16O.R%d.pickle' % seed)
        write_pickle(tab, fn)
        readers['pickle'] = PickleOpacity(fn)
        check_reader(readers['pickle'], tab, 'H2O', 'pickle%d' % seed)

        for unit, kind in zip(PRESSURE_UNITS, ['bytes', 'array', 'str',
                                               'bytes', 'array']):
            fn = os.path.join(d, 'x_%s.h5' % unit)
            write_hdf5(tab, fn, unit, 'H2O', kind)
            for mem in (True, False):
                op = HDF5Opacity(fn, interpolation_mode='linear',
                                 in_memory=mem)
                check_reader(op, tab, 'H2O',
                             'hdf5[%s,%s,mem=%s]%d' % (unit, kind, mem, seed))
                ok(op.opacityCitation() == [], 'no DOI -> no citation')
            readers['hdf5:' + unit] = op

        fn = os.path.join(d, 'opacH2O.dat')
        write_exotransmit(tab, fn)
        readers['exo'] = ExoTransmitOpacity(fn)
        check_reader(readers['exo'], tab, 'H2O', 'exo%d' % seed, 1e-9)

        # the readers agree with each other and with the reference
        for mode in ('linear', 'exp'):
            for op in readers.values():
                op.set_interpolation_mode(mode)
            for T, P in sample_points(tab, 7 + seed, 6):
                ref = reference(tab, T, P, mode)
                first = None
                for name, op in readers.items():
                    got = op.opacity(T, P)
                    close(got, ref, '%s %s T=%g P=%g' % (name, mode, T, P),
                          1e-8)
                    first = got if first is None else first
                    close(got, first, name + ' vs pickle', 1e-9)
                # on a coarser wavenumber grid np.interp is used
                wn = np.linspace(tab['wn'][0] + 1, tab['wn'][-1] - 1, 5)
                sel = (tab['wn'] >= wn.min()) & (tab['wn'] <= wn.max())
                if sel.sum() > 1:
                    want = np.interp(wn, tab['wn'][sel], ref[sel])
                    for name, op in readers.items():
                        close(op.opacity(T, P, wn), want,
                              name + ' regridded', 1e-8)

    # HDF5 with a DOI: lookup disabled -> the DOI itself is the citation
    GlobalCache()['xsec_disable_doi'] = True
    tab = make_table(5, 2, 2, 4)
    fn = os.path.join(workdir, 'doi.h5')
    write_hdf5(tab, fn, 'bar', 'CO2', 'array', doi='10.1000/xyz123')
    op = HDF5Opacity(fn, in_memory=True)
    ok(op.opacityCitation() == ['10.1000/xyz123'], 'DOI citation kept')
    ok(op.moleculeName == 'CO2', 'DOI file molecule')

    # ---------------------------------------------------------------------
    # 2. discovery: names from file names / file contents, args for the class
    # ---------------------------------------------------------------------
    d = os.path.join(workdir, 'disc')
    os.makedirs(d)
    tabs = {m: make_table(200 + k, 3, 3, 5) for k, m in
            enumerate(['H2O', 'CO2', 'CH4', 'NH3', 'TiO'])}
    write_pickle(tabs['H2O'], os.path.join(d, '1H2-16O.R100.pickle'))
    write_pickle(tabs['CO2'], os.path.join(d, '12C-16O2.pickle'))
    write_exotransmit(tabs['CH4'], os.path.join(d, 'opacCH4.dat'))
    write_hdf5(tabs['NH3'], os.path.join(d, 'whatever.h5'), 'atm', 'NH3')
    write_hdf5(tabs['TiO'], os.path.join(d, 'other.hdf5'), 'mmHg', 'TiO',
               'array')
    for name in ('H2O', '1H2-16O', '12C-16O2', '48Ti-16O', 'CH4', 'NaH'):
        ok(sanitize_molecule_string(name) ==
           {'1H2-16O': 'H2O', '12C-16O2': 'CO2', '48Ti-16O': 'TiO'}.get(
               name, name), 'sanitise ' + name)

    cache = OpacityCache()
    cache.clear_cache()
    GlobalCache()['xsec_interpolation'] = None
    GlobalCache()['xsec_in_memory'] = None
    GlobalCache()['xsec_path'] = None
    for klass in (PickleOpacity, HDF5Opacity, ExoTransmitOpacity):
        ok(klass.discover() == [], 'no path -> nothing discovered')
    cache.set_opacity_path(d)
    found = dict(PickleOpacity.discover())
    ok(sorted(found) == ['CO2', 'H2O'], 'pickle discovery %s' % found)
    ok(found['H2O'] == [os.path.join(d, '1H2-16O.R100.pickle'), 'linear'],
       'pickle discovery args')
    found = dict(ExoTransmitOpacity.discover())
    ok(found == {'CH4': [os.path.join(d, 'opacCH4.dat'), 'linear']},
       'exo discovery %s' % found)
    found = dict(HDF5Opacity.discover())
    ok(found == {'NH3': [os.path.join(d, 'whatever.h5'), 'linear', True],
                 'TiO': [os.path.join(d, 'other.hdf5'), 'linear', True]},
       'hdf5 discovery %s' % found)
    ok([m for m, _ in HDF5Opacity.discover()] == ['NH3', 'TiO'],
       '.h5 files are listed before .hdf5 files')
    ok(cache.find_list_of_molecules() == set(tabs), 'molecule list')

    # ---------------------------------------------------------------------
    # 3. through the cache: loaded once, same object, modes take effect
    # ---------------------------------------------------------------------
    served = {m: cache[m] for m in tabs}
    for m, klass in [('H2O', PickleOpacity), ('CO2', PickleOpacity),
                     ('CH4', ExoTransmitOpacity), ('NH3', HDF5Opacity),
                     ('TiO', HDF5Opacity)]:
        ok(type(served[m]) is klass, '%s served by %s' % (m, klass.__name__))
        ok(cache[m] is served[m], m + ' same object on second request')
        check_reader(served[m], tabs[m], m, 'cache ' + m, 1e-9)
        for T, P in sample_points(tabs[m], 3, 3):
            close(cache[m].opacity(T, P), reference(tabs[m], T, P, 'linear'),
                  'cache linear ' + m, 1e-8)

    cache.set_interpolation('exp')
    ok(cache.opacity_dict == {}, 'mode change empties the cache')
    for m in tabs:
        ok(cache[m] is not served[m], m + ' reloaded after mode change')
        for T, P in sample_points(tabs[m], 4, 3):
            close(cache[m].opacity(T, P), reference(tabs[m], T, P, 'exp'),
                  'cache exp ' + m, 1e-8)
    ok(dict(PickleOpacity.discover())['CO2'][1] == 'exp', 'discover sees mode')
    cache.set_interpolation('linear')
    for m in tabs:
        T, P = sample_points(tabs[m], 5, 1)[0]
        close(cache[m].opacity(T, P), reference(tabs[m], T, P, 'linear'),
              'cache linear again ' + m, 1e-8)

    # streaming vs in-memory HDF5 give the same numbers
    cache.set_memory_mode(False)
    streamed = cache['NH3']
    T, P = sample_points(tabs['NH3'], 6, 1)[0]
    close(streamed.opacity(T, P), reference(tabs['NH3'], T, P, 'linear'),
          'streamed hdf5', 1e-8)
    cache.set_memory_mode(True)

    # HDF5 wins over a pickle of the same molecule (priority 5 < 100)
    other = make_table(999, 3, 3, 5)
    write_hdf5(other, os.path.join(d, 'dup.h5'), 'bar', 'CO2')
    cache.clear_cache()
    ok(type(cache['CO2']) is HDF5Opacity, 'hdf5 has priority')
    close(np.asarray(cache['CO2'].xsecGrid)/1e4, other['sig_m2'],
          'priority table', 1e-12)

    # ---------------------------------------------------------------------
    # 4. k-tables: pickle and HDF5 (bar, Pa, atm) hold the same coefficients
    # ---------------------------------------------------------------------
    rng = np.random.default_rng(77)
    tab = make_table(300, 3, 4, 6)
    ng = 4
    weights = rounded(rng.dirichlet(np.ones(ng)))
    kcoeff = tab['sig_m2'][..., None]*1e4*(1 + np.arange(ng))
    kd = os.path.join(workdir, 'ktab')
    os.makedirs(kd)
    with open(os.path.join(kd, 'H2O.R100.pickle'), 'wb') as f:
        pickle.dump({'bin_centers': tab['wn'], 'ngauss': ng, 't': tab['t'],
                     'p': tab['p_bar'], 'kcoeff': kcoeff, 'weights': weights,
                     'name': 'H2O_R100'}, f)
    ktabs = {'pickle': PickleKTable(os.path.join(kd, 'H2O.R100.pickle'))}
    for unit in ('bar', 'Pa', 'atm'):
        fn = os.path.join(workdir, '1H2-16O_%s.hdf5' % unit)
        with h5py.File(fn, 'w') as f:
            f.create_dataset('bin_centers', data=tab['wn'])
            f.create_dataset('ngauss', data=ng)
            f.create_dataset('t', data=tab['t'])
            p = f.create_dataset('p', data=tab['p_pa']/PRESSURE_UNITS[unit])
            p.attrs['units'] = unit
            f.create_dataset('kcoeff', data=kcoeff)
            f.create_dataset('weights', data=weights)
        for mem in (True, False):
            ktabs['hdf5:%s:%s' % (unit, mem)] = HDF5KTable(fn, in_memory=mem)
    for name, kt in ktabs.items():
        ok(kt.moleculeName == 'H2O', name + ' ktable molecule')
        close(kt.wavenumberGrid, tab['wn'], name + ' k wn', 1e-13)
        close(kt.temperatureGrid, tab['t'], name + ' k T', 1e-13)
        close(kt.pressureGrid, tab['p_pa'], name + ' k P', 1e-9)
        close(kt.weights, weights, name + ' k weights', 1e-13)
        close(np.asarray(kt.xsecGrid[...]), kcoeff, name + ' kcoeff', 1e-13)
        for mode in ('linear', 'exp'):
            kt.set_interpolation_mode(mode)
            for T, P in sample_points(tab, 11, 3):
                ref = reference(tab, T, P, mode,
                                sig=kcoeff.reshape(3, 4, -1)/1e4)
                close(kt.opacity(T, P), ref.reshape(-1, ng),
                      '%s k opacity %s' % (name, mode), 1e-8)

    kc = KTableCache()
    shutil.copy(os.path.join(workdir, '1H2-16O_atm.hdf5'),
                os.path.join(kd, '12C-16O2_R7.hdf5'))
    kc.set_ktable_path(kd)
    kc.clear_cache()
    ok(dict(HDF5KTable.discover()) ==
       {'CO2': [os.path.join(kd, '12C-16O2_R7.hdf5'), 'linear']},
       'hdf5 ktable discovery')
    ok(dict(PickleKTable.discover()) ==
       {'H2O': [os.path.join(kd, 'H2O.R100.pickle'), 'linear']},
       'pickle ktable discovery')
    ok(kc.find_list_of_molecules() == {'H2O', 'CO2'}, 'ktable molecules')
    ok(type(kc['H2O']) is PickleKTable and type(kc['CO2']) is HDF5KTable,
       'ktable cache classes')
    ok(kc['CO2'] is kc['CO2'], 'ktable cached')
    T, P = sample_points(tab, 12, 1)[0]
    close(kc['CO2'].opacity(T, P), kc['H2O'].opacity(T, P),
          'ktable cache: both containers agree', 1e-9)
finally:
    OpacityCache().clear_cache()
    shutil.rmtree(workdir, ignore_errors=True)

print('C14 demo A: %d checks passed' % CHECKS[0])
