import os, sys; sys.path.insert(0, os.getcwd())
"""
Reviewer's demo for property C09: "posterior summaries are the weighted
statistics of the stored samples".

Only the public surface is used (Optimizer.fit(), get_solution(),
get_samples(), get_weights(), the returned solution dictionary); the
samplers are replaced at their library seam (nestle.sample, and in-process
stand-ins for the uninstalled pymultinest / pypolychord that write the files
the wrappers read back).  Every expected number is recomputed here with
plain Python loops, independently of taurex.util.

This copy additionally pins down the public parameter-selection setters of
Optimizer (enable/disable, boundaries, mode, priors), which the change under
review funnels through new private helpers.
"""
import contextlib
import copy
import io
import logging
import math
import random
import shutil
import tempfile
import types

import numpy as np

# --------------------------------------------------------------------------
# stand-ins for the samplers that are not installed
# --------------------------------------------------------------------------
PLAN = {}          # what the fake samplers have to "produce"
SEEN = {}          # what the fake samplers observed


def _rows(weights, loglike, samples):
    return np.column_stack([weights, -2.0*np.asarray(loglike), samples])


def _save(path, arr):
    np.savetxt(path, arr, fmt='%.17e')


def _fake_multinest_run(**kw):
    base = kw['outputfiles_basename']
    ndim = kw['n_dims']
    # exercise the closures handed over by compute_fit
    cube = [0.25 + 0.5*i/max(ndim, 1) for i in range(ndim)]
    unit = list(cube)
    kw['Prior'](cube, ndim, ndim)
    SEEN['unit'] = unit
    SEEN['cube'] = list(cube)
    SEEN['loglike'] = kw['LogLikelihood'](cube, ndim, ndim)
    SEEN['kwargs'] = {k: v for k, v in kw.items()
                      if k not in ('LogLikelihood', 'Prior')}
    modes = PLAN['modes']
    _save(base + '.txt', np.vstack([_rows(*m) for m in modes]))
    with open(base + 'post_separate.dat', 'w') as f:
        for k, m in enumerate(modes):
            if k > 0:
                f.write('\n\n')
            for row in _rows(*m):
                f.write(' '.join('%.17e' % v for v in row) + '\n')
    st = PLAN['file_stats']
    with open(base + 'stats.dat', 'w') as f:
        f.write('%s   :   %.17e  +/-  %.17e\n' % (st['title'], st['logz'],
                                                   st['logzerr']))
        f.write('\n')
        f.write('Dim No.       Mean        Sigma\n')
        for i, (mu, sg) in enumerate(zip(st['mean'], st['sigma'])):
            f.write('%d %.17e %.17e\n' % (i+1, mu, sg))
        f.write('\n')
        f.write('Dim No.        Parameter\n')
        for i, v in enumerate(st['maximum']):
            f.write('%d %.17e\n' % (i+1, v))
        f.write('\n')
        f.write('Dim No.        Parameter\n')
        for i, v in enumerate(st['map']):
            f.write('%d %.17e\n' % (i+1, v))


class _FakeAnalyzer:
    def __init__(self, n_params, outputfiles_basename):
        SEEN['analyzer'] = (n_params, outputfiles_basename)

    def get_stats(self):
        return copy.deepcopy(PLAN['analyzer_stats'])


_pmn = types.ModuleType('pymultinest')
_pmn.run = _fake_multinest_run
_pmn.Analyzer = _FakeAnalyzer
sys.modules['pymultinest'] = _pmn


class _FakeSettings:
    def __init__(self, ndim, nderived):
        self.ndim = ndim
        self.nderived = nderived


def _fake_run_polychord(loglike, ndim, nderived, settings, prior):
    base = settings.base_dir
    unit = [0.25 + 0.5*i/max(ndim, 1) for i in range(ndim)]
    cube = prior(unit)
    SEEN['unit'] = unit
    SEEN['cube'] = list(cube)
    SEEN['loglike'] = loglike(cube)
    SEEN['settings'] = settings
    clusters = PLAN['modes']
    _save(os.path.join(base, '1-.txt'),
          np.vstack([_rows(*m) for m in clusters]))
    os.makedirs(os.path.join(base, 'clusters'), exist_ok=True)
    if PLAN.get('write_clusters', True):
        for k, m in enumerate(clusters):
            _save(os.path.join(base, 'clusters', '1-_%d.txt' % (k+1)),
                  _rows(*m))
    with open(os.path.join(base, '1-.stats'), 'w') as f:
        for i in range(8):
            f.write('filler line %d\n' % i)
        f.write('log(Z)       =  %s +/-  %s\n' % PLAN['global_logz'])
        for i in range(9, 14):
            f.write('filler line %d\n' % i)
        for k, (z, ze) in enumerate(PLAN['local_logz']):
            f.write('log(Z_ %d)  =  %s +/-  %s\n' % (k+1, z, ze))


_ppc = types.ModuleType('pypolychord')
_ppc.run_polychord = _fake_run_polychord
_ppc_s = types.ModuleType('pypolychord.settings')
_ppc_s.PolyChordSettings = _FakeSettings
_ppc_p = types.ModuleType('pypolychord.priors')
_ppc_p.UniformPrior = object
_ppc.settings = _ppc_s
_ppc.priors = _ppc_p
sys.modules['pypolychord'] = _ppc
sys.modules['pypolychord.settings'] = _ppc_s
sys.modules['pypolychord.priors'] = _ppc_p

import taurex  # noqa: E402
assert os.path.realpath(taurex.__file__).startswith(
    os.path.realpath(os.getcwd()) + os.sep), taurex.__file__

import nestle  # noqa: E402
import taurex.log  # noqa: E402
from taurex.model import ForwardModel  # noqa: E402
from taurex.core import fitparam, derivedparam  # noqa: E402
from taurex.spectrum import BaseSpectrum  # noqa: E402
from taurex.binning import SimpleBinner  # noqa: E402
from taurex.optimizer import NestleOptimizer  # noqa: E402
from taurex.optimizer import MultiNestOptimizer  # noqa: E402
from taurex.optimizer import PolyChordOptimizer  # noqa: E402
from taurex import OutputSize  # noqa: E402

taurex.log.setLogLevel(logging.CRITICAL)

CHECKS = [0]


def check(cond, msg):
    CHECKS[0] += 1
    if not cond:
        raise AssertionError(msg)


def close(a, b, rtol=1e-10, atol=1e-12):
    return np.allclose(np.asarray(a, dtype=float), np.asarray(b, dtype=float),
                       rtol=rtol, atol=atol, equal_nan=True)


# --------------------------------------------------------------------------
# independent reference calculations (plain loops)
# --------------------------------------------------------------------------
def ref_quantiles(trace, weights, qs=(0.16, 0.5, 0.84)):
    """weighted quantiles: sort, cumulate weights, normalise, interpolate."""
    order = sorted(range(len(trace)), key=lambda i: trace[i])
    xs = [float(trace[i]) for i in order]
    acc = []
    tot = 0.0
    for i in order:
        tot = tot + float(weights[i])
        acc.append(tot)
    cdf = [a/acc[-1] for a in acc]
    out = []
    for q in qs:
        j = 0
        while j < len(cdf) and cdf[j] <= q:
            j += 1
        if j == 0:
            out.append(xs[0])
        elif j == len(cdf):
            out.append(xs[-1])
        else:
            t = (q - cdf[j-1])/(cdf[j] - cdf[j-1])
            out.append(xs[j-1] + t*(xs[j] - xs[j-1]))
    return out


def ref_wmean(trace, weights):
    return math.fsum(float(t)*float(w) for t, w in zip(trace, weights)) / \
        math.fsum(float(w) for w in weights)


def ref_wstd(trace, weights):
    mu = ref_wmean(trace, weights)
    var = math.fsum(float(w)*(float(t)-mu)**2 for t, w in
                    zip(trace, weights))/math.fsum(float(w) for w in weights)
    return math.sqrt(var)


def ref_cov(samples, weights):
    n, d = samples.shape
    mu = [ref_wmean(samples[:, k], weights) for k in range(d)]
    ws = math.fsum(weights)
    w2 = math.fsum(w*w for w in weights)
    cov = np.zeros((d, d))
    for j in range(d):
        for k in range(d):
            cov[j, k] = ws/(ws*ws - w2)*math.fsum(
                weights[i]*(samples[i, j]-mu[j])*(samples[i, k]-mu[k])
                for i in range(n))
    return cov


def ref_argmax_first(weights):
    best = 0
    for i in range(1, len(weights)):
        if weights[i] > weights[best]:
            best = i
    return best


# --------------------------------------------------------------------------
# a small forward model / observation with full bookkeeping
# --------------------------------------------------------------------------
NATIVE = np.arange(1.0, 41.0)           # 40 native points
OBSGRID = np.arange(3.0, 40.0, 5.0)      # 8 bins of 5 native points


def curve(a, b, c, x):
    return a*x + b + c*x*x/40.0


class CurveModel(ForwardModel):

    def __init__(self):
        super().__init__('CurveModel')
        self._a, self._b, self._c = 1.5, 2.0, 0.5
        self.events = []

    def state(self):
        return (self._a, self._b, self._c)

    @fitparam(param_name='a', param_latex='$a$', default_fit=False,
              default_bounds=[0.1, 10.0])
    def a(self):
        return self._a

    @a.setter
    def a(self, value):
        self._a = value

    @fitparam(param_name='b', param_latex='$b$', default_fit=False,
              default_bounds=[-5.0, 5.0])
    def b(self):
        return self._b

    @b.setter
    def b(self, value):
        self._b = value

    @fitparam(param_name='c', param_latex='$c$', default_fit=False,
              default_bounds=[0.0, 2.0])
    def c(self):
        return self._c

    @c.setter
    def c(self, value):
        self._c = value

    @derivedparam(param_name='apb', param_latex='a+b', compute=False)
    def apb(self):
        return self._a + self._b

    @derivedparam(param_name='atc', param_latex='ac', compute=False)
    def atc(self):
        return self._a*self._c

    def build(self):
        pass

    def initialize_profiles(self):
        self.events.append(('init_profiles', self.state()))

    def model(self, wngrid=None, cutoff_grid=True):
        self.events.append(('model', self.state(), cutoff_grid))
        x = NATIVE
        flux = curve(self._a, self._b, self._c, x)
        tau = np.vstack([flux*0.5, flux*0.25])
        return x, flux, tau, None

    def model_contrib(self, wngrid=None, cutoff_grid=True):
        return NATIVE, {}

    def model_full_contrib(self, wngrid=None, cutoff_grid=True):
        return NATIVE, {}

    def generate_profiles(self):
        self.events.append(('profiles', self.state()))
        return {'state': {'abc': np.array(self.state())}}

    def compute_error(self, samples, wngrid=None, binner=None):
        seen = []
        for w in samples():
            seen.append((self.state(), w))
        self.events.append(('error', seen))
        prof = {'state': {'nseen': len(seen)},
                'extra_profile': {'k': 1}}
        spec = {'extra_spectrum': {'k': 2}}
        return prof, spec


class CurveObs(BaseSpectrum):

    def __init__(self, truth=(1.2, 0.7, 0.5), offset=0.0):
        super().__init__('CurveObs')
        self._x = OBSGRID
        rs = np.random.RandomState(77)
        self._yerr = 0.2 + 0.1*rs.rand(self._x.size)
        self._y = ref_bin(curve(*truth, NATIVE)) + self._yerr*rs.randn(
            self._x.size)
        self._off = offset

    def create_binner(self):
        return SimpleBinner(self._x)

    @property
    def spectrum(self):
        return self._y + self._off

    @property
    def wavenumberGrid(self):
        return self._x

    @property
    def errorBar(self):
        return self._yerr

    @fitparam(param_name='off', param_latex='off', default_fit=False,
              default_bounds=[-1.0, 1.0])
    def off(self):
        return self._off

    @off.setter
    def off(self, value):
        self._off = value


def ref_bin(flux):
    """mean of the native points falling in every observed bin."""
    out = []
    for centre in OBSGRID:
        vals = [flux[i] for i in range(NATIVE.size)
                if centre-2.5 < NATIVE[i] < centre+2.5]
        out.append(math.fsum(vals)/len(vals))
    return np.array(out)


# --------------------------------------------------------------------------
# sample-set generators
# --------------------------------------------------------------------------
BOUNDS = {'a': (0.1, 10.0), 'b': (-5.0, 5.0), 'c': (0.0, 2.0),
          'off': (-1.0, 1.0)}


def make_samples(rs, n, params, logs):
    cols = []
    for p in params:
        lo, hi = BOUNDS[p]
        if p in logs:
            lo, hi = math.log10(lo), math.log10(hi)
        cols.append(lo + (hi-lo)*rs.rand(n))
    return np.column_stack(cols)


def make_weights(rs, n, kind):
    if kind == 'smooth':
        w = rs.rand(n)**3
    elif kind == 'ties':          # many exactly equal weights, two equal maxima
        w = np.round(rs.rand(n)*4)/4.0 + 0.25
        top = w.max()
        w[n//3] = top + 1.0
        w[2*n//3] = top + 1.0
    elif kind == 'zeros':         # a lot of exact zeros
        w = rs.rand(n)
        w[rs.rand(n) < 0.4] = 0.0
        w[n-1] = 0.0
        w[0] = 0.0
        w[n//2] = 2.0
    elif kind == 'nested':        # like a nested-sampling run: rising, peaked
        w = np.exp(-0.5*((np.arange(n)-0.8*n)/(0.07*n+1))**2)
    elif kind == 'equal':
        w = np.ones(n)
    else:
        raise ValueError(kind)
    return w/w.sum() if kind != 'ties' else w


def to_model_values(row, params, logs):
    d = {}
    for v, p in zip(row, params):
        d[p] = 10**v if p in logs else v
    return d


def quiet():
    return contextlib.redirect_stdout(io.StringIO())


# --------------------------------------------------------------------------
# the checks shared by all samplers
# --------------------------------------------------------------------------
def check_summaries(tag, fit_params, names, samples, weights):
    """value/sigma_m/sigma_p/trace follow the weighted-quantile rule."""
    check(list(fit_params.keys()) == list(names),
          '%s: fit_params keys %s != %s' % (tag, list(fit_params), names))
    for k, name in enumerate(names):
        p = fit_params[name]
        check(np.array_equal(p['trace'], samples[:, k]),
              '%s: trace of %s is not column %d of the samples' %
              (tag, name, k))
        q16, q50, q84 = ref_quantiles(samples[:, k], weights)
        check(close(p['value'], q50), '%s: %s value %r != %r' %
              (tag, name, p['value'], q50))
        check(close(p['sigma_m'], q50-q16), '%s: %s sigma_m %r != %r' %
              (tag, name, p['sigma_m'], q50-q16))
        check(close(p['sigma_p'], q84-q50), '%s: %s sigma_p %r != %r' %
              (tag, name, p['sigma_p'], q84-q50))
        check(p['sigma_m'] >= 0 and p['sigma_p'] >= 0, '%s: negative error'
              % tag)


def check_postprocessing(tag, opt, model, obs, sol, sol_idx, params, logs,
                         samples, weights, map_vals, med_vals, derived,
                         fraction, seed, events, output_size):
    """Spectra at the MAP, profiles at the median, derived traces."""
    base = {'a': 1.5, 'b': 2.0, 'c': 0.5}

    def abc(row):
        d = dict(base)
        d.update({k: v for k, v in to_model_values(row, params, logs).items()
                  if k in base})
        return (d['a'], d['b'], d['c'])

    map_state = abc(map_vals)
    med_state = abc(med_vals)

    # --- stored spectrum: forward model at the MAP, binned to observation
    spec = sol['Spectra']
    flux = curve(*map_state, NATIVE)
    check(close(spec['native_spectrum'], flux),
          '%s: stored native spectrum is not the model at the MAP' % tag)
    check(close(spec['binned_spectrum'], ref_bin(flux)),
          '%s: stored binned spectrum is not the MAP model binned' % tag)
    check(np.array_equal(spec['native_wngrid'], NATIVE) and
          np.array_equal(spec['binned_wngrid'], OBSGRID),
          '%s: spectrum grids' % tag)
    if output_size > OutputSize.lighter:
        check(close(spec['binned_tau'][0], ref_bin(flux*0.5)) and
              close(spec['binned_tau'][1], ref_bin(flux*0.25)),
              '%s: binned tau' % tag)
    else:
        check('binned_tau' not in spec, '%s: binned tau stored' % tag)
    check(('native_tau' in spec) == (output_size > OutputSize.light),
          '%s: native tau presence' % tag)
    check(spec['extra_spectrum'] == {'k': 2}, '%s: spectrum dict merged' % tag)
    check('Contributions' in spec, '%s: contributions stored' % tag)

    # --- stored profiles: those of the median solution (+ merged sigma)
    prof = sol['Profiles']
    check(close(prof['state']['abc'], med_state),
          '%s: profiles are not those of the median solution %r vs %r' %
          (tag, prof['state']['abc'], med_state))
    check(prof['extra_profile'] == {'k': 1}, '%s: profile dict merged' % tag)

    # --- order of model evaluations for this solution
    ev = [e for e in events if e[0] in ('model', 'profiles', 'error')]
    check([e[0] for e in ev] == ['model', 'model', 'profiles', 'error'],
          '%s: post-processing event order %s' % (tag, [e[0] for e in ev]))
    check(close(ev[0][1], map_state) and ev[0][2] is False,
          '%s: first evaluation is not at the MAP on the full grid' % tag)
    check(close(ev[1][1], med_state) and ev[1][2] is False,
          '%s: second evaluation is not at the median' % tag)
    check(close(ev[2][1], med_state), '%s: profiles not at median' % tag)

    # --- the random sub-sample handed to compute_error
    seen = ev[3][1]
    n = samples.shape[0]
    check(prof['state']['nseen'] == len(seen) == int(n*fraction),
          '%s: %d samples for the error estimate, expected %d' %
          (tag, len(seen), int(n*fraction)))
    random.seed(seed)
    expect_idx = random.sample(range(n), int(n*fraction))
    for (state, w), i in zip(seen, expect_idx):
        check(close(state, abc(samples[i])),
              '%s: error sample is not row %d of the samples' % (tag, i))
        check(w == weights[i] + 1e-300,
              '%s: error sample weight is not the weight of row %d' %
              (tag, i))

    # --- derived parameters
    if not derived:
        check('derived_params' not in sol, '%s: unexpected derived' % tag)
        return
    dp = sol['derived_params']
    check(list(dp.keys()) == ['%s_derived' % d for d in derived],
          '%s: derived keys %s' % (tag, list(dp)))
    funcs = {'apb': lambda s: s[0]+s[1], 'atc': lambda s: s[0]*s[2]}
    for d in derived:
        exp_trace = np.array([funcs[d](abc(samples[i])) for i in range(n)])
        got = dp['%s_derived' % d]
        check(len(got['trace']) == n, '%s: derived trace length' % tag)
        check(close(got['trace'], exp_trace, rtol=1e-13),
              '%s: derived trace %s not in sample order' % (tag, d))
        q16, q50, q84 = ref_quantiles(exp_trace, weights)
        check(close(got['value'], q50) and close(got['sigma_m'], q50-q16)
              and close(got['sigma_p'], q84-q50),
              '%s: derived summaries of %s' % (tag, d))
        check(close(got['mean'], ref_wmean(exp_trace, weights)),
              '%s: derived mean of %s' % (tag, d))
        check(set(got.keys()) == {'value', 'sigma_m', 'sigma_p', 'trace',
                                  'mean'}, '%s: derived keys' % tag)


def ref_loglike(obs, state_abc):
    y = obs.spectrum
    e = obs.errorBar
    m = ref_bin(curve(*state_abc, NATIVE))
    chi = math.fsum(((y[i]-m[i])/e[i])**2 for i in range(len(y)))
    return -math.fsum(math.log(e[i]*math.sqrt(2*math.pi))
                      for i in range(len(y))) - 0.5*chi


def setup(opt, params, logs, derived):
    for p in params:
        opt.enable_fit(p)
        if p in logs:
            opt.set_mode(p, 'log')
    for d in derived:
        opt.enable_derived(d)


# --------------------------------------------------------------------------
# 1. nestle wrapper with a prescribed sampler result
# --------------------------------------------------------------------------
def run_nestle_case(case_no, n, params, logs, kind, derived, fraction,
                    output_size=OutputSize.heavy):
    tag = 'nestle#%d' % case_no
    rs = np.random.RandomState(1000 + case_no)
    samples = make_samples(rs, n, params, logs)
    if kind == 'tiedx':
        # repeated trace values carrying equal weights
        samples[1::2] = samples[0::2][:samples[1::2].shape[0]]
        weights = np.repeat(make_weights(rs, (n+1)//2, 'smooth'), 2)[:n]
        weights = weights/weights.sum()
    else:
        weights = make_weights(rs, n, kind)
    given_s, given_w = samples.copy(), weights.copy()

    def fake_sample(loglike, prior, ndim, **kw):
        SEEN['ndim'] = ndim
        SEEN['kw'] = kw
        unit = [0.25 + 0.5*i/max(ndim, 1) for i in range(ndim)]
        SEEN['unit'] = unit
        SEEN['cube'] = list(prior(unit))
        SEEN['loglike'] = loglike(SEEN['cube'])
        return nestle.Result(niter=10, ncall=20, samples=samples,
                             weights=weights, logz=-12.5+case_no,
                             logzerr=0.125, h=3.5, logl=np.zeros(n),
                             logvol=np.zeros(n))

    model = CurveModel()
    obs = CurveObs()
    opt = NestleOptimizer(num_live_points=17, observed=obs, model=model,
                          tol=0.25, sigma_fraction=fraction)
    setup(opt, params, logs, derived)
    names = ['log_%s' % p if p in logs else p for p in params]

    real_sample = nestle.sample
    nestle.sample = fake_sample
    seed = 4242 + case_no
    random.seed(seed)
    try:
        with quiet():
            solution = opt.fit(output_size=output_size)
    finally:
        nestle.sample = real_sample

    check(opt.fit_names == names, '%s: fit names %s' % (tag, opt.fit_names))
    check(SEEN['ndim'] == len(params), '%s: ndim' % tag)
    check(SEEN['kw']['npoints'] == 17 and SEEN['kw']['dlogz'] == 0.25,
          '%s: sampler settings' % tag)
    # prior transform and likelihood handed to the sampler
    exp_cube = []
    for u, p in zip(SEEN['unit'], params):
        lo, hi = BOUNDS[p]
        if p in logs:
            lo, hi = math.log10(lo), math.log10(hi)
        exp_cube.append(lo + u*(hi-lo))
    check(close(SEEN['cube'], exp_cube), '%s: prior transform' % tag)
    st = {'a': 1.5, 'b': 2.0, 'c': 0.5}
    mv = to_model_values(exp_cube, params, logs)
    st.update({k: v for k, v in mv.items() if k in st})
    obs_ref = CurveObs(offset=mv.get('off', 0.0))
    check(close(SEEN['loglike'], ref_loglike(obs_ref, (st['a'], st['b'],
                                                         st['c']))),
          '%s: log-likelihood' % tag)

    check(list(solution.keys()) == ['solution0'], '%s: solutions' % tag)
    sol = solution['solution0']
    exp_keys = ['Statistics', 'fit_params', 'tracedata', 'weights',
                'Spectra', 'Profiles'] + (['derived_params'] if derived
                                          else [])
    check(list(sol.keys()) == exp_keys, '%s: solution keys %s' %
          (tag, list(sol)))

    # samples and weights are the sampler's, unchanged
    for got_s, got_w, where in ((sol['tracedata'], sol['weights'], 'dict'),
                                (opt.get_samples(0), opt.get_weights(0),
                                 'accessors')):
        check(np.array_equal(got_s, given_s) and got_s.shape == given_s.shape,
              '%s: stored samples differ (%s)' % (tag, where))
        check(np.array_equal(got_w, given_w),
              '%s: stored weights differ (%s)' % (tag, where))
    check(np.array_equal(samples, given_s) and np.array_equal(weights,
                                                              given_w),
          '%s: sampler arrays were modified in place' % tag)

    check(sol['Statistics'] == {'Log-Evidence': -12.5+case_no,
                                'Log-Evidence-Error': 0.125,
                                'Peakiness': 3.5}, '%s: statistics' % tag)

    fp = sol['fit_params']
    check_summaries(tag, fp, names, given_s, given_w)
    imax = ref_argmax_first(given_w)
    cov = ref_cov(given_s, list(given_w))
    for k, name in enumerate(names):
        check(fp[name]['map'] == given_s[imax, k],
              '%s: MAP of %s is not the sample of greatest weight' %
              (tag, name))
        check(close(fp[name]['mean'], ref_wmean(given_s[:, k], given_w)),
              '%s: mean of %s is not the weighted mean' % (tag, name))
        check(close(fp[name]['sigma'], cov[k], rtol=1e-8, atol=1e-10),
              '%s: sigma of %s' % (tag, name))
        check(set(fp[name].keys()) == {'mean', 'sigma', 'value', 'sigma_m',
                                       'sigma_p', 'trace', 'map'},
              '%s: fit_params entry keys' % tag)

    # get_solution()
    sols = list(opt.get_solution())
    check(len(sols) == 1, '%s: number of solutions' % tag)
    idx, g_map, g_med, extra = sols[0]
    check(idx == 0, '%s: solution index' % tag)
    check(list(g_map) == [given_s[imax, k] for k in range(len(names))],
          '%s: get_solution MAP' % tag)
    check(close(g_med, [ref_quantiles(given_s[:, k], given_w)[1]
                        for k in range(len(names))]),
          '%s: get_solution median' % tag)
    check([e[0] for e in extra] == ['Statistics', 'fit_params', 'tracedata',
                                    'weights'], '%s: extras' % tag)
    check(extra[2][1] is opt.get_samples(0) and
          extra[3][1] is opt.get_weights(0), '%s: extras identity' % tag)

    ev = model.events
    first = [i for i, e in enumerate(ev) if e[0] == 'model'
             and e[2] is False][0]
    post = ev[first:]
    if derived:
        cut = [i for i, e in enumerate(post) if e[0] == 'init_profiles'][0]
        post, tail = post[:cut], post[cut:]
        check(len([e for e in tail if e[0] == 'init_profiles']) == n,
              '%s: one profile initialisation per sample' % tag)
    check_postprocessing(tag, opt, model, obs, sol, 0, params, logs,
                         given_s, given_w, g_map, g_med, derived, fraction,
                         seed, post, output_size)
    return solution


# --------------------------------------------------------------------------
# 2. a real (seeded) nestle run; ground truth taken at the library seam
# --------------------------------------------------------------------------
def run_real_nestle():
    tag = 'nestle-real'
    captured = {}
    real_sample = nestle.sample

    def spy(*a, **kw):
        kw['callback'] = None
        res = real_sample(*a, **kw)
        captured['samples'] = np.array(res.samples, copy=True)
        captured['weights'] = np.array(res.weights, copy=True)
        captured['logz'] = res.logz
        return res

    model = CurveModel()
    obs = CurveObs()
    opt = NestleOptimizer(num_live_points=25, observed=obs, model=model,
                          tol=0.5, sigma_fraction=0.2)
    params, logs, derived = ['a', 'b'], [], ['apb']
    setup(opt, params, logs, derived)
    opt.set_boundary('a', [0.5, 2.0])
    opt.set_boundary('b', [-2.0, 3.0])
    np.random.seed(31415)
    random.seed(99)
    nestle.sample = spy
    try:
        with quiet():
            solution = opt.fit()
    finally:
        nestle.sample = real_sample
    s, w = captured['samples'], captured['weights']
    sol = solution['solution0']
    check(s.shape[0] > 50 and s.shape[1] == 2, '%s: run too short' % tag)
    check(np.array_equal(sol['tracedata'], s) and
          np.array_equal(sol['weights'], w) and
          np.array_equal(opt.get_samples(0), s) and
          np.array_equal(opt.get_weights(0), w),
          '%s: stored samples are not what nestle returned' % tag)
    check(sol['Statistics']['Log-Evidence'] == captured['logz'],
          '%s: evidence' % tag)
    check_summaries(tag, sol['fit_params'], ['a', 'b'], s, w)
    imax = ref_argmax_first(w)
    for k, name in enumerate(['a', 'b']):
        check(sol['fit_params'][name]['map'] == s[imax, k], '%s: MAP' % tag)
        check(close(sol['fit_params'][name]['mean'], ref_wmean(s[:, k], w)),
              '%s: mean' % tag)
    g = sol['derived_params']['apb_derived']
    exp = s[:, 0] + s[:, 1]
    check(close(g['trace'], exp, rtol=1e-13), '%s: derived trace' % tag)
    q16, q50, q84 = ref_quantiles(exp, w)
    check(close([g['value'], g['sigma_m'], g['sigma_p']],
                [q50, q50-q16, q84-q50]), '%s: derived summaries' % tag)
    mp = (s[imax, 0], s[imax, 1], 0.5)
    check(close(sol['Spectra']['binned_spectrum'],
                ref_bin(curve(*mp, NATIVE))), '%s: MAP spectrum' % tag)
    med = (sol['fit_params']['a']['value'], sol['fit_params']['b']['value'],
           0.5)
    check(close(sol['Profiles']['state']['abc'], med), '%s: profiles' % tag)
    # the fit should also have found the truth, roughly
    check(abs(sol['fit_params']['a']['value'] - 1.2) < 0.3, '%s: fit' % tag)


# --------------------------------------------------------------------------
# 3. MultiNest wrapper (stand-in library writing the chain files)
# --------------------------------------------------------------------------
def mode_stats(m):
    w, ll, s = m
    d = s.shape[1]
    return {'mean': [ref_wmean(s[:, k], w) for k in range(d)],
            'sigma': [ref_wstd(s[:, k], w) for k in range(d)],
            'maximum': [float(s[int(np.argmax(ll)), k]) for k in range(d)],
            'maximum a posterior': [float(s[ref_argmax_first(w), k])
                                    for k in range(d)]}


def run_multinest_case(case_no, sizes, params, logs, kinds, derived,
                       multimodes, analyzer_has_modes=True, fraction=0.3):
    tag = 'multinest#%d' % case_no
    rs = np.random.RandomState(2000 + case_no)
    modes = []
    for n, kind in zip(sizes, kinds):
        s = make_samples(rs, n, params, logs)
        w = make_weights(rs, n, kind)
        ll = -50.0*rs.rand(n)
        modes.append((w, ll, s))
    PLAN.clear()
    SEEN.clear()
    PLAN['modes'] = modes
    stats = {'global evidence': -20.5 - case_no,
             'global evidence error': 0.0625, 'modes': []}
    if analyzer_has_modes:
        for k, m in enumerate(modes):
            ms = mode_stats(m)
            ms.update({'index': k, 'local log-evidence': -21.0 - k,
                       'local log-evidence error': 0.5 + k,
                       'strictly local log-evidence': -22.0 - k,
                       'strictly local log-evidence error': 0.25})
            stats['modes'].append(ms)
    PLAN['analyzer_stats'] = stats
    allw = np.concatenate([m[0] for m in modes])
    alls = np.vstack([m[2] for m in modes])
    allll = np.concatenate([m[1] for m in modes])
    fs = mode_stats((allw, allll, alls))
    PLAN['file_stats'] = {'title': 'Nested Sampling Global Log-Evidence',
                          'logz': -33.25, 'logzerr': 0.375,
                          'mean': fs['mean'], 'sigma': fs['sigma'],
                          'maximum': fs['maximum'],
                          'map': fs['maximum a posterior']}

    tmp = tempfile.mkdtemp(prefix='c09_mn_')
    try:
        model = CurveModel()
        obs = CurveObs()
        opt = MultiNestOptimizer(multi_nest_path=os.path.join(tmp, 'chains'),
                                 observed=obs, model=model,
                                 search_multi_modes=multimodes,
                                 num_live_points=33,
                                 sigma_fraction=fraction)
        setup(opt, params, logs, derived)
        names = ['log_%s' % p if p in logs else p for p in params]
        seed = 777 + case_no
        random.seed(seed)
        with quiet():
            solution = opt.fit()
    finally:
        shutil.rmtree(tmp, ignore_errors=True)

    check(SEEN['kwargs']['n_dims'] == len(params) and
          SEEN['kwargs']['n_live_points'] == 33 and
          SEEN['kwargs']['multimodal'] == multimodes,
          '%s: run arguments' % tag)
    st = {'a': 1.5, 'b': 2.0, 'c': 0.5}
    st.update({k: v for k, v in to_model_values(SEEN['cube'], params,
                                                logs).items() if k in st})
    check(close(SEEN['loglike'], ref_loglike(obs, (st['a'], st['b'],
                                                   st['c']))),
          '%s: log-likelihood' % tag)

    if multimodes:
        expect = modes
    else:
        expect = [(allw, allll, alls)]
    check([k for k in solution.keys() if k.startswith('solution')] ==
          ['solution%d' % k for k in range(len(expect))],
          '%s: solution keys %s' % (tag, list(solution)))
    check('GlobalStats' in solution and
          solution['GlobalStats']['global evidence'] == -20.5 - case_no,
          '%s: global stats' % tag)
    gstats = solution['GlobalStats']['modes']
    if not analyzer_has_modes:
        check(len(gstats) == 1 and close(gstats[0]['mean'], fs['mean'])
              and close(gstats[0]['sigma'], fs['sigma'])
              and close(gstats[0]['maximum'], fs['maximum'])
              and close(gstats[0]['maximum a posterior'],
                        fs['maximum a posterior'])
              and gstats[0]['local log-evidence'] == -33.25
              and gstats[0]['local log-evidence error'] == 0.375
              and gstats[0]['strictly local log-evidence'] == -33.25,
              '%s: stats file fallback' % tag)

    sols = list(opt.get_solution())
    check([s_[0] for s_ in sols] == list(range(len(expect))),
          '%s: solution numbering' % tag)
    events = model.events
    first = [i for i, e in enumerate(events) if e[0] == 'model'
             and e[2] is False][0]
    post = [e for e in events[first:]]
    derived_start = [i for i, e in enumerate(post) if e[0] == 'init_profiles']
    main = post[:derived_start[0]] if derived_start else post
    per_solution = [main[4*k:4*k+4] for k in range(len(expect))]
    check(len(main) == 4*len(expect), '%s: %d post-processing events' %
          (tag, len(main)))
    if derived:
        check(len(derived_start) == sum(m[0].size for m in expect),
              '%s: derived evaluations' % tag)

    # the random sub-samples are drawn solution after solution
    random.seed(seed)
    sub_idx = [random.sample(range(m[0].size), int(m[0].size*fraction))
               for m in expect]

    for k, (w, ll, s) in enumerate(expect):
        sol = solution['solution%d' % k]
        stag = '%s/solution%d' % (tag, k)
        exp_keys = ['Statistics', 'fit_params', 'tracedata', 'weights',
                    'Spectra', 'Profiles'] + (['derived_params'] if derived
                                              else [])
        check(list(sol.keys()) == exp_keys, '%s: keys %s' % (stag, list(sol)))
        check(np.array_equal(sol['tracedata'], s) and
              np.array_equal(opt.get_samples(k), s),
              '%s: stored samples differ from the chain' % stag)
        check(np.array_equal(sol['weights'], w) and
              np.array_equal(opt.get_weights(k), w),
              '%s: stored weights differ from the chain' % stag)
        check(isinstance(opt.get_weights(k), np.ndarray), '%s: weights type'
              % stag)
        check_summaries(stag, sol['fit_params'], names, s, w)
        ref_ms = gstats[k]
        for j, name in enumerate(names):
            p = sol['fit_params'][name]
            check(p['nest_map'] == ref_ms['maximum a posterior'][j] and
                  p['mean'] == ref_ms['mean'][j] and
                  p['nest_sigma'] == ref_ms['sigma'][j],
                  '%s: sampler statistics of %s' % (stag, name))
            check(set(p.keys()) == {'value', 'sigma_m', 'sigma_p', 'nest_map',
                                    'mean', 'nest_sigma', 'trace'},
                  '%s: fit_params entry keys' % stag)
            check(close(p['nest_map'], s[ref_argmax_first(w), j]),
                  '%s: MAP is not the sample of greatest weight' % stag)
            check(close(p['mean'], ref_wmean(s[:, j], w)),
                  '%s: mean is not the weighted mean' % stag)
        check(sol['Statistics'] == {
            'local log-evidence': gstats[k]['local log-evidence'],
            'local log-evidence error':
                gstats[k]['local log-evidence error']},
            '%s: statistics' % stag)
        # get_solution() re-uses one pair of lists for all solutions, so
        # advance a fresh generator to solution k and copy the values
        exp_map = [ref_ms['maximum a posterior'][j] for j in range(len(names))]
        exp_med = [ref_quantiles(s[:, j], w)[1] for j in range(len(names))]
        gen = opt.get_solution()
        for _ in range(k+1):
            idx, g_map, g_med, extra = next(gen)
            g_map, g_med = list(g_map), list(g_med)
        check(g_map == exp_map and close(g_med, exp_med),
              '%s: get_solution values' % stag)
        check([e[0] for e in extra] == ['Statistics', 'fit_params',
                                        'tracedata', 'weights'],
              '%s: extras' % stag)

        _check_post_with_indices(stag, sol, params, logs, s, w, exp_map,
                                 exp_med, derived, sub_idx[k],
                                 per_solution[k])
    return solution


def _check_post_with_indices(tag, sol, params, logs, samples, weights,
                             map_vals, med_vals, derived, expect_idx, ev):
    base = {'a': 1.5, 'b': 2.0, 'c': 0.5}

    def abc(row):
        d = dict(base)
        d.update({k: v for k, v in to_model_values(row, params, logs).items()
                  if k in base})
        return (d['a'], d['b'], d['c'])

    map_state, med_state = abc(map_vals), abc(med_vals)
    flux = curve(*map_state, NATIVE)
    check(close(sol['Spectra']['native_spectrum'], flux) and
          close(sol['Spectra']['binned_spectrum'], ref_bin(flux)),
          '%s: stored spectrum is not the binned model at the MAP' % tag)
    check(close(sol['Profiles']['state']['abc'], med_state),
          '%s: profiles are not those of the median solution' % tag)
    check([e[0] for e in ev] == ['model', 'model', 'profiles', 'error'],
          '%s: event order %s' % (tag, [e[0] for e in ev]))
    check(close(ev[0][1], map_state) and close(ev[1][1], med_state) and
          close(ev[2][1], med_state), '%s: evaluation states' % tag)
    seen = ev[3][1]
    check(len(seen) == len(expect_idx), '%s: sub-sample size' % tag)
    for (state, w), i in zip(seen, expect_idx):
        check(close(state, abc(samples[i])) and w == weights[i] + 1e-300,
              '%s: error sample %d' % (tag, i))
    if not derived:
        check('derived_params' not in sol, '%s: unexpected derived' % tag)
        return
    funcs = {'apb': lambda s: s[0]+s[1], 'atc': lambda s: s[0]*s[2]}
    n = samples.shape[0]
    check(list(sol['derived_params'].keys()) ==
          ['%s_derived' % d for d in derived], '%s: derived keys' % tag)
    for d in derived:
        exp_trace = np.array([funcs[d](abc(samples[i])) for i in range(n)])
        got = sol['derived_params']['%s_derived' % d]
        check(len(got['trace']) == n and
              close(got['trace'], exp_trace, rtol=1e-13),
              '%s: derived trace %s not in sample order' % (tag, d))
        q16, q50, q84 = ref_quantiles(exp_trace, weights)
        check(close([got['value'], got['sigma_m'], got['sigma_p']],
                    [q50, q50-q16, q84-q50]),
              '%s: derived summaries of %s' % (tag, d))
        check(close(got['mean'], ref_wmean(exp_trace, weights)),
              '%s: derived mean of %s' % (tag, d))


# --------------------------------------------------------------------------
# 4. PolyChord wrapper (stand-in library writing the chain files)
# --------------------------------------------------------------------------
def run_polychord_case(case_no, sizes, params, logs, kinds, derived, cluster,
                       fraction=0.25):
    tag = 'polychord#%d' % case_no
    rs = np.random.RandomState(3000 + case_no)
    modes = []
    for n, kind in zip(sizes, kinds):
        s = make_samples(rs, n, params, logs)
        # PolyChord rows carry one derived column after the parameters
        w = make_weights(rs, n, kind)
        ll = -50.0*rs.rand(n)
        modes.append((w, ll, np.column_stack([s, rs.rand(n)])))
    PLAN.clear()
    SEEN.clear()
    PLAN['modes'] = modes
    PLAN['write_clusters'] = cluster
    PLAN['global_logz'] = ('-0.123E+02', '0.100E+00')
    PLAN['local_logz'] = [('-0.1%dE+02' % (k+3), '0.%d00E+00' % (k+2))
                          for k in range(len(modes))]
    d = len(params)

    tmp = tempfile.mkdtemp(prefix='c09_pc_')
    try:
        model = CurveModel()
        obs = CurveObs()
        opt = PolyChordOptimizer(polychord_path=tmp, observed=obs,
                                 model=model, cluster=cluster,
                                 sigma_fraction=fraction)
        setup(opt, params, logs, derived)
        names = ['log_%s' % p if p in logs else p for p in params]
        seed = 555 + case_no
        random.seed(seed)
        with quiet():
            solution = opt.fit()
    finally:
        shutil.rmtree(tmp, ignore_errors=True)

    check(SEEN['settings'].do_clustering == cluster and
          SEEN['settings'].file_root == '1-', '%s: settings' % tag)
    st = {'a': 1.5, 'b': 2.0, 'c': 0.5}
    st.update({k: v for k, v in to_model_values(SEEN['cube'], params,
                                                logs).items() if k in st})
    check(close(SEEN['loglike'][0], ref_loglike(obs, (st['a'], st['b'],
                                                      st['c']))),
          '%s: log-likelihood' % tag)

    if cluster and len(modes) > 1:
        expect = modes
    else:
        expect = [(np.concatenate([m[0] for m in modes]),
                   np.concatenate([m[1] for m in modes]),
                   np.vstack([m[2] for m in modes]))]
    check(list(solution.keys()) == ['solution%d' % k
                                    for k in range(len(expect))],
          '%s: solution keys %s' % (tag, list(solution)))

    events = model.events
    first = [i for i, e in enumerate(events) if e[0] == 'model'
             and e[2] is False][0]
    post = events[first:]
    derived_start = [i for i, e in enumerate(post) if e[0] == 'init_profiles']
    main = post[:derived_start[0]] if derived_start else post
    check(len(main) == 4*len(expect), '%s: post-processing events' % tag)
    random.seed(seed)
    sub_idx = [random.sample(range(m[0].size), int(m[0].size*fraction))
               for m in expect]

    for k, (w, ll, full) in enumerate(expect):
        s = full[:, :d]
        sol = solution['solution%d' % k]
        stag = '%s/solution%d' % (tag, k)
        exp_keys = ['fit_params', 'tracedata', 'weights', 'Spectra',
                    'Profiles'] + (['derived_params'] if derived else [])
        check(list(sol.keys()) == exp_keys, '%s: keys %s' % (stag, list(sol)))
        check(np.array_equal(sol['tracedata'], s) and
              np.array_equal(opt.get_samples(k), s),
              '%s: stored samples differ from the chain' % stag)
        check(np.array_equal(sol['weights'], w) and
              np.array_equal(opt.get_weights(k), w),
              '%s: stored weights differ from the chain' % stag)
        check_summaries(stag, sol['fit_params'], names, s, w)
        ibest = int(np.argmax(ll))     # smallest -2 log L
        exp_map = [s[ibest, j] for j in range(d)]
        for j, name in enumerate(names):
            p = sol['fit_params'][name]
            check(p['nest_map'] == s[ibest, j], '%s: nest_map of %s' %
                  (stag, name))
            check(close(p['nest_mean'], ref_wmean(s[:, j], w)),
                  '%s: mean of %s is not the weighted mean' % (stag, name))
            check(close(p['nest_sigma'], ref_wstd(s[:, j], w)),
                  '%s: sigma of %s' % (stag, name))
            check(set(p.keys()) == {'value', 'sigma_m', 'sigma_p', 'nest_map',
                                    'nest_mean', 'nest_sigma', 'trace'},
                  '%s: fit_params entry keys' % stag)
        exp_med = [ref_quantiles(s[:, j], w)[1] for j in range(d)]
        gen = opt.get_solution()
        for _ in range(k+1):
            idx, g_map, g_med, extra = next(gen)
            g_map, g_med = list(g_map), list(g_med)
        check(idx == k and g_map == exp_map and close(g_med, exp_med),
              '%s: get_solution values' % stag)
        check([e[0] for e in extra] == ['fit_params', 'tracedata', 'weights'],
              '%s: extras' % stag)
        _check_post_with_indices(stag, sol, params, logs, s, w, exp_map,
                                 exp_med, derived, sub_idx[k],
                                 main[4*k:4*k+4])
    return solution


# --------------------------------------------------------------------------
# 5. the quantile helper on its own, and the sub-sampling helper
# --------------------------------------------------------------------------
def check_util():
    from taurex.util.util import quantile_corner, weighted_avg_and_std, \
        random_int_iter
    rs = np.random.RandomState(5)
    for n in (1, 2, 3, 10, 257):
        for kind in ('smooth', 'ties', 'zeros', 'equal', 'nested'):
            if kind == 'zeros' and n < 3:
                continue
            x = rs.randn(n)*3
            w = make_weights(rs, n, kind) if n > 2 else rs.rand(n) + 0.1
            x0, w0 = x.copy(), w.copy()
            qs = [0.0, 0.16, 0.5, 0.84, 1.0, 0.025]
            got = quantile_corner(x, qs, weights=w)
            check(isinstance(got, list), 'quantile_corner returns a list')
            check(close(got, ref_quantiles(x, w, qs)),
                  'quantile_corner n=%d %s: %r' % (n, kind, got))
            check(np.array_equal(x, x0) and np.array_equal(w, w0),
                  'quantile_corner modified its input')
            mu, sd = weighted_avg_and_std(x, w)
            check(close(mu, ref_wmean(x, w)) and close(sd, ref_wstd(x, w)),
                  'weighted_avg_and_std')
        x = rs.randn(n)
        check(close(quantile_corner(x, [0.16, 0.5, 0.84]),
                    np.percentile(x, [16, 50, 84])),
              'unweighted quantile_corner')
    for total, frac in ((10, 0.5), (100, 0.1), (7, 0.0), (33, 1.0)):
        random.seed(total)
        got = list(random_int_iter(total, frac))
        random.seed(total)
        check(got == random.sample(range(total), int(total*frac)),
              'random_int_iter')
        check(len(set(got)) == len(got) == int(total*frac),
              'random_int_iter distinct')


# --------------------------------------------------------------------------
# 6. selection of fitted / derived parameters (public setters)
# --------------------------------------------------------------------------
def check_selection():
    from taurex.core.priors import Uniform, LogUniform, Gaussian, PriorMode
    model = CurveModel()
    obs = CurveObs()
    opt = NestleOptimizer(num_live_points=5, observed=obs, model=model)

    def entry(owner, name):
        return owner.fittingParameters[name]

    before = entry(model, 'a')
    check(before[0] == 'a' and before[4] == 'linear' and before[5] is False
          and before[6] == [0.1, 10.0], 'selection: initial entry %r'
          % (before,))
    opt.enable_fit('a')
    after = entry(model, 'a')
    check(after[5] is True and after[:5] == before[:5] and
          after[6] is before[6] and isinstance(after, tuple) and
          len(after) == 7, 'selection: enable_fit')
    opt.enable_fit('off')                       # lives on the observation
    check(entry(obs, 'off')[5] is True, 'selection: enable_fit on obs')
    opt.disable_fit('off')
    check(entry(obs, 'off')[5] is False, 'selection: disable_fit on obs')
    opt.set_boundary('a', [0.5, 4.0])
    check(entry(model, 'a')[6] == [0.5, 4.0] and entry(model, 'a')[5] is True,
          'selection: set_boundary')
    opt.set_factor_boundary('b', (0.5, 3.0))
    check(entry(model, 'b')[6] == (1.0, 6.0), 'selection: factor boundary %r'
          % (entry(model, 'b')[6],))
    opt.set_mode('a', 'LOG')
    check(entry(model, 'a')[4] == 'log', 'selection: set_mode lowers case')
    snapshot = entry(model, 'a')
    try:
        opt.set_mode('a', 'cubic')
        check(False, 'selection: bad mode accepted')
    except ValueError:
        pass
    check(entry(model, 'a') is snapshot, 'selection: bad mode wrote entry')
    for call in (lambda: opt.enable_fit('nope'),
                 lambda: opt.set_mode('nope', 'log'),
                 lambda: opt.set_mode('nope', 'cubic'),
                 lambda: opt.set_boundary('nope', [0, 1]),
                 lambda: opt.enable_derived('nope'),
                 lambda: opt.disable_derived('nope')):
        try:
            call()
            check(False, 'selection: unknown parameter accepted')
        except KeyError:
            pass
    try:
        opt.set_prior('nope', Uniform(bounds=[0, 1]))
        check(False, 'selection: prior for unknown parameter')
    except ValueError:
        pass

    opt.enable_derived('atc')
    check(model.derivedParameters['atc'][3] is True and
          model.derivedParameters['apb'][3] is False and
          len(model.derivedParameters['atc']) == 4,
          'selection: enable_derived')
    opt.enable_fit('b')
    opt.compile_params()
    check(opt.fit_names == ['log_a', 'b'] and
          opt.fit_latex == ['log($a$)', '$b$'] and
          opt.derived_names == ['atc'] and opt.derived_latex == ['ac'],
          'selection: compiled names %s %s' % (opt.fit_names, opt.fit_latex))
    pa, pb = opt.fitting_priors
    check(type(pa) is LogUniform and type(pb) is Uniform and
          close(pa.boundaries(), (math.log10(0.5), math.log10(4.0))) and
          close(pb.boundaries(), (1.0, 6.0)), 'selection: default priors')
    check(close(opt.fit_boundaries, [(math.log10(0.5), math.log10(4.0)),
                                     (1.0, 6.0)]), 'selection: boundaries')
    check(close(opt.fit_values, [math.log10(1.5), 2.0]) and
          close(opt.fit_values_nomode, [1.5, 2.0]) and
          close(opt.derived_values, [0.75]), 'selection: values')
    opt.update_model([0.0, 3.0])
    check(model.state() == (1.0, 3.0, 0.5), 'selection: update_model')
    try:
        opt.update_model([0.0])
        check(False, 'selection: short update accepted')
    except ValueError:
        pass

    # an explicit prior survives recompilation, a default one is rebuilt
    g = Gaussian(mean=2.0, std=0.5)
    opt.set_prior('b', g)
    opt.set_boundary('a', [1.0, 2.0])
    opt.set_mode('a', 'linear')
    opt.compile_params()
    check(opt.fitting_priors[1] is g and opt.fit_names == ['a', 'b'] and
          type(opt.fitting_priors[0]) is Uniform and
          opt.fitting_priors[0].priorMode is PriorMode.LINEAR and
          close(opt.fitting_priors[0].boundaries(), (1.0, 2.0)),
          'selection: priors after recompilation')
    opt.disable_fit('a')
    opt.disable_derived('atc')
    opt.compile_params()
    check(opt.fit_names == ['b'] and opt.fitting_priors == [g] and
          opt.derived_names == [], 'selection: after disabling')


def main():
    check_util()
    check_selection()

    # (n, parameters, log-mode parameters, weights, derived, fraction)
    nestle_cases = [
        (40, ['a'], [], 'smooth', [], 0.5),
        (61, ['a', 'b'], [], 'ties', ['apb'], 0.1),
        (120, ['a', 'b', 'c'], ['a'], 'zeros', ['apb', 'atc'], 0.25),
        (300, ['b', 'c'], [], 'nested', ['atc'], 0.1),
        (25, ['a', 'c', 'off'], ['a'], 'equal', ['apb'], 1.0),
        (50, ['a', 'b'], ['a'], 'tiedx', ['atc', 'apb'], 0.3),
        (3, ['c', 'b', 'a'], [], 'smooth', ['apb'], 0.34),
    ]
    for i, (n, params, logs, kind, derived, frac) in enumerate(nestle_cases):
        size = [OutputSize.heavy, OutputSize.light, OutputSize.lighter][i % 3]
        # parameters are always compiled in model order
        order = [p for p in ('a', 'b', 'c', 'off') if p in params]
        dorder = [d for d in ('apb', 'atc') if d in derived]
        run_nestle_case(i, n, order, logs, kind, dorder, frac, size)

    run_real_nestle()

    run_multinest_case(0, [30, 45], ['a', 'b'], [], ['smooth', 'ties'],
                       ['apb'], True)
    run_multinest_case(1, [50], ['a', 'b', 'c'], ['a'], ['zeros'],
                       ['apb', 'atc'], True)
    run_multinest_case(2, [64], ['a', 'c'], ['a'], ['nested'], [], False)
    run_multinest_case(3, [20, 22], ['b', 'c'], [], ['smooth', 'zeros'],
                       ['atc'], False, analyzer_has_modes=False)
    run_multinest_case(4, [12, 40, 9], ['a', 'b', 'c'], ['a'],
                       ['ties', 'smooth', 'equal'], ['apb'], True)

    run_polychord_case(0, [40, 31], ['a', 'b'], [], ['smooth', 'zeros'],
                       ['apb'], True)
    run_polychord_case(1, [55], ['a', 'b', 'c'], ['a'], ['ties'],
                       ['apb', 'atc'], True)
    run_polychord_case(2, [35], ['b', 'c'], [], ['nested'], [], False)
    run_polychord_case(3, [18, 20, 16], ['a', 'c'], ['a'],
                       ['equal', 'smooth', 'ties'], ['atc'], True)

    print('C09 demo: %d checks passed' % CHECKS[0])
    return 0


if __name__ == '__main__':
    sys.exit(main())
