import os, sys; sys.path.insert(0, os.getcwd())
"""
C14 demo (caches and collision-induced absorption).

 * one CIA table written as a pickle (.db), as a single-range HITRAN file and
   as HITRAN files whose wavenumber range differs from temperature to
   temperature; the expected unified table is built here by hand
 * CIACache / OpacityCache histories: first request loads from the configured
   path, later requests give the same object (even once the file is gone),
   mode changes empty the cache and show up in everything served afterwards,
   a new path is honoured for everything not yet served
 * the opacities served by the cache for pickle / HDF5 / Exo-Transmit copies of
   one table agree with an interpolation written here from scratch

Only public API is used.
"""
import pickle
import shutil
import tempfile
import warnings

import numpy as np
import h5py

import taurex
assert os.path.abspath(taurex.__file__).startswith(os.getcwd() + os.sep), \
    taurex.__file__
import taurex.log
taurex.log.disableLogging()
warnings.simplefilter('ignore')
import logging
logging.disable(logging.CRITICAL)

from taurex.cache import OpacityCache, CIACache, GlobalCache
from taurex.cia import HitranCIA, PickleCIA, CIA
from taurex.opacity import PickleOpacity, HDF5Opacity, ExoTransmitOpacity

CHECKS = [0]


def ok(cond, msg):
    CHECKS[0] += 1
    if not cond:
        print('FAIL:', msg)
        sys.exit(1)


def close(a, b, msg, rtol=1e-11, atol=0.0):
    a = np.asarray(a, dtype=float)
    b = np.asarray(b, dtype=float)
    ok(a.shape == b.shape, '%s: shape %s != %s' % (msg, a.shape, b.shape))
    ok(np.allclose(a, b, rtol=rtol, atol=atol), msg + ': values differ')


def raises(fn, exc, msg):
    try:
        fn()
    except exc:
        ok(True, msg)
        return
    ok(False, msg + ': nothing raised')


def rounded(x, digits=3):
    return np.array([float(('%.' + str(digits) + 'e') % v)
                     for v in np.ravel(x)]).reshape(np.shape(x))


# --------------------------------------------------------------------------
# HITRAN cia text
# --------------------------------------------------------------------------
def hitran_block(pair, wn, T, sig_cm5):
    head = '%20s%10.3f%10.3f%7d%7.1f%10.3e %6.3f some reference\n' % (
        pair, wn[0], wn[-1], len(wn), T, max(sig_cm5.max(), 0.0), -0.999)
    return head + ''.join('%10.4f %10.3E\n' % (w, s)
                          for w, s in zip(wn, sig_cm5))


def write_hitran(path, pair, blocks):
    with open(path, 'w') as f:
        for wn, T, sig in blocks:
            f.write(hitran_block(pair, wn, T, sig))


def check_cia(obj, pair, wn, T, table, label):
    """table[T, wn] in SI is what obj must reproduce"""
    # interpolation weights are exact only up to rounding relative to the
    # larger of the two bracketing rows
    tiny = 1e-12*np.max(table)
    ok(obj.pairName == pair, '%s pair name %r' % (label, obj.pairName))
    ok((obj.pairOne, obj.pairTwo) == tuple(pair.split('-')), label + ' pair')
    close(obj.wavenumberGrid, wn, label + ' wn axis')
    close(obj.temperatureGrid, T, label + ' T axis')
    for j, t in enumerate(T):
        close(obj.cia(t), table[j], '%s row at T=%g' % (label, t), 1e-11, tiny)
    for j in range(len(T) - 1):
        for f in (0.25, 0.6):
            t = T[j] + f*(T[j+1] - T[j])
            want = table[j] + (t - T[j])/(T[j+1] - T[j])*(table[j+1] - table[j])
            close(obj.cia(t), want, '%s between %g and %g' % (label, T[j], T[j+1]),
                  1e-9, tiny)
            grid = np.linspace(wn[0] - 3, wn[-1] + 3, 23)
            close(obj.cia(t, grid), np.interp(grid, wn, want),
                  label + ' regridded', 1e-9, tiny)
    close(obj.cia(T[-1]*3), table[-1], label + ' hot clamp')
    close(obj.cia(T[0]/3), table[0], label + ' cold clamp')


workdir = tempfile.mkdtemp(prefix='c14demoB')
saved_init = PickleOpacity.__init__
try:
    rng = np.random.default_rng(2024)

    # ---------------------------------------------------------------------
    # 1. one table, three containers
    # ---------------------------------------------------------------------
    for case, (n_t, n_wn) in enumerate([(3, 8), (5, 4), (2, 11)]):
        T = np.sort(rng.choice(np.arange(100., 3000., 25.), n_t,
                               replace=False))
        wn = np.round(np.sort(rng.uniform(20, 9000, n_wn)), 3)
        cm5 = rounded(10.0**rng.uniform(-48, -43, (n_t, n_wn)))
        cm5[rng.random((n_t, n_wn)) < 0.15] *= -1       # noise below zero
        si = np.where(cm5 < 0, 0.0, cm5*1e-10)

        d = os.path.join(workdir, 'cia%d' % case)
        os.makedirs(d)
        with open(os.path.join(d, 'H2-He_2011.db'), 'wb') as f:
            pickle.dump({'wno': wn, 't': T, 'xsecarr': si,
                         'comments': ['x']}, f)
        order = rng.permutation(n_t)                    # file order is free
        write_hitran(os.path.join(d, 'N2-N2_2018.cia'), 'N2-N2',
                     [(wn, T[j], cm5[j]) for j in order])

        check_cia(PickleCIA(os.path.join(d, 'H2-He_2011.db')), 'H2-He_2011',
                  wn, T, si, 'pickle direct %d' % case)
        check_cia(PickleCIA(os.path.join(d, 'H2-He_2011.db'), 'H2-He'),
                  'H2-He', wn, T, si, 'pickle named %d' % case)
        check_cia(HitranCIA(os.path.join(d, 'N2-N2_2018.cia')), 'N2-N2',
                  wn, T, si, 'hitran direct %d' % case)

        cc = CIACache()
        cc.cia_dict = {}
        cc.set_cia_path(d)
        a, b = cc['H2-He'], cc['N2-N2']
        ok(type(a) is PickleCIA and type(b) is HitranCIA, 'cache classes')
        check_cia(a, 'H2-He', wn, T, si, 'cache pickle %d' % case)
        check_cia(b, 'N2-N2', wn, T, si, 'cache hitran %d' % case)
        close(a.cia(0.5*(T[0] + T[1])), b.cia(0.5*(T[0] + T[1])),
              'containers agree', 1e-12, 1e-12*si.max())
        ok(cc['H2-He'] is a and cc['N2-N2'] is b, 'same objects served')

    # ---------------------------------------------------------------------
    # 2. HITRAN file with a different wavenumber range per temperature
    # ---------------------------------------------------------------------
    seg = {'low': np.arange(20., 60., 5.),          # 8 points
           'mid': np.arange(60., 100., 4.),         # 10 points
           'high': np.arange(100., 130., 2.5)}      # 12 points
    present = {'low': [200., 400., 600.],           # 300 interpolated
               'mid': [100., 300., 600.],           # 200, 400 interpolated
               'high': [200., 300.]}                # 100: 0, 400, 600: 0
    master = np.array([100., 200., 300., 400., 600.])
    data = {(s, t): rounded(10.0**rng.uniform(-47, -44, len(seg[s])))
            for s in seg for t in present[s]}
    expected = np.zeros((len(master), sum(len(v) for v in seg.values())))
    col = 0
    for s in ('low', 'mid', 'high'):
        n = len(seg[s])
        have = present[s]
        for j, t in enumerate(master):
            if t in have:
                row = data[(s, t)]*1e-10
            elif t < min(have) or t > max(have):
                row = np.zeros(n)
            else:
                lo = max(x for x in have if x < t)
                hi = min(x for x in have if x > t)
                row = (data[(s, lo)] + (t - lo)/(hi - lo) *
                       (data[(s, hi)] - data[(s, lo)]))*1e-10
            expected[j, col:col + n] = row
        col += n
    all_wn = np.concatenate([seg['low'], seg['mid'], seg['high']])
    blocks = [(seg[s], t, data[(s, t)]) for (s, t) in data]
    for trial in range(4):
        perm = rng.permutation(len(blocks))
        fn = os.path.join(workdir, 'split%d' % trial, 'H2-H2_split.cia')
        os.makedirs(os.path.dirname(fn))
        write_hitran(fn, 'H2-H2', [blocks[k] for k in perm])
        check_cia(HitranCIA(fn), 'H2-H2', all_wn, master, expected,
                  'split ranges, order %d' % trial)
        cc = CIACache()
        cc.cia_dict = {}
        cc.set_cia_path(os.path.dirname(fn))
        check_cia(cc['H2-H2'], 'H2-H2', all_wn, master, expected,
                  'split ranges via cache %d' % trial)

    # ---------------------------------------------------------------------
    # 3. CIACache histories
    # ---------------------------------------------------------------------
    cc = CIACache()
    ok(CIACache() is cc, 'singleton')
    cc.cia_dict = {}
    d0, d1 = os.path.join(workdir, 'cia0'), os.path.join(workdir, 'cia1')
    cc.set_cia_path(d0)
    first = cc['H2-He']
    ref_row = first.cia(500.0).copy()
    os.remove(os.path.join(d0, 'H2-He_2011.db'))
    ok(cc['H2-He'] is first, 'served from memory once loaded')
    close(cc['H2-He'].cia(500.0), ref_row, 'same numbers')
    raises(lambda: cc['He-He'], Exception, 'unknown pair raises')
    ok(sorted(cc.cia_dict) == ['H2-He'], 'nothing else was loaded')
    cc.set_cia_path(d1)                         # same pair names, other table
    ok(cc['H2-He'] is first, 'a served pair survives a path change')
    other = cc['N2-N2']
    ok(not np.array_equal(other.wavenumberGrid,
                          HitranCIA(os.path.join(d0, 'N2-N2_2018.cia'))
                          .wavenumberGrid), 'new pair comes from new path')
    cc.cia_dict = {}
    cc.set_cia_path([d0, os.path.join(workdir, 'split0')])   # list of paths
    ok(type(cc['H2-H2']) is HitranCIA and type(cc['N2-N2']) is HitranCIA,
       'list of paths')
    extra = PickleCIA(os.path.join(d1, 'H2-He_2011.db'), 'CO2-CO2')
    cc.load_cia(cia_xsec=extra, cia_path=d1, pair_filter=['nothing'])
    ok(cc['CO2-CO2'] is extra, 'object handed in is served')
    raises(lambda: cc.add_cia(extra), Exception, 'duplicate pair refused')
    # a pickle and a HITRAN file for one pair: the pickle is served
    both = os.path.join(workdir, 'both')
    os.makedirs(both)
    shutil.copy(os.path.join(d1, 'H2-He_2011.db'),
                os.path.join(both, 'N2-N2_a.db'))
    shutil.copy(os.path.join(d1, 'N2-N2_2018.cia'), both)
    cc.cia_dict = {}
    cc.set_cia_path(both)
    raises(lambda: cc['N2-N2'], Exception, 'second container is refused')
    ok(type(cc['N2-N2']) is PickleCIA, '.db has priority')

    # ---------------------------------------------------------------------
    # 4. OpacityCache histories with one table in three containers
    # ---------------------------------------------------------------------
    def make_table(seed, n_p=3, n_t=4, n_wn=6):
        r = np.random.default_rng(seed)
        p_bar = rounded(np.logspace(-3, 1, n_p), 6)
        t = np.concatenate([[250.0], np.round(np.sort(
            r.uniform(400, 2000, n_t - 2)), 1), [2400.0]])
        wn = np.round(np.sort(r.uniform(400, 5000, n_wn)), 4)
        sig = rounded(10.0**r.uniform(-29, -24, (n_p, n_t, n_wn)), 8)
        return dict(p_bar=p_bar, p_pa=p_bar*1e5, t=t, wn=wn, sig=sig)

    def write_all(tab, d, mol_file, mol):
        os.makedirs(d, exist_ok=True)
        with open(os.path.join(d, mol_file + '.R1.pickle'), 'wb') as f:
            pickle.dump({'wno': tab['wn'], 't': tab['t'], 'p': tab['p_bar'],
                         'xsecarr': tab['sig']*1e4}, f)

    def write_h5(tab, path, mol, unit, factor):
        with h5py.File(path, 'w') as f:
            f['bin_edges'] = tab['wn']
            f['t'] = tab['t']
            f['p'] = tab['p_pa']/factor
            f['p'].attrs['units'] = unit
            f['xsecarr'] = tab['sig']*1e4
            f['mol_name'] = np.array([mol.encode()])

    def write_exo(tab, path):
        with open(path, 'w') as f:
            f.write(' '.join('%.1f' % v for v in tab['t']) + '\n')
            f.write(' '.join('%.6e' % v for v in tab['p_bar']) + '\n')
            for k in np.argsort(-tab['wn']):
                f.write('%.17e\n' % (1e-2/tab['wn'][k]))
                for i, p in enumerate(tab['p_bar']):
                    f.write('%.6e ' % p + ' '.join(
                        '%.8e' % v for v in tab['sig'][i, :, k]) + '\n')

    def reference(tab, T, P, mode):
        lp, t, sig = np.log10(tab['p_pa']), tab['t'], tab['sig']
        x = np.log10(P)
        p1 = int(np.clip(np.searchsorted(lp, x), 1, len(lp) - 1))
        t1 = int(np.clip(np.searchsorted(t, T), 1, len(t) - 1))
        p0, t0 = p1 - 1, t1 - 1
        f = (x - lp[p0])/(lp[p1] - lp[p0])
        a = sig[p0, t0] + f*(sig[p1, t0] - sig[p0, t0])
        b = sig[p0, t1] + f*(sig[p1, t1] - sig[p0, t1])
        if mode == 'linear':
            return a + (T - t[t0])/(t[t1] - t[t0])*(b - a)
        w = (1/T - 1/t[t0])/(1/t[t1] - 1/t[t0])
        return np.exp((1 - w)*np.log(a) + w*np.log(b))

    tab = make_table(1)
    tab2 = make_table(2)
    dA, dB = os.path.join(workdir, 'xsA'), os.path.join(workdir, 'xsB')
    write_all(tab, dA, '1H2-16O', 'H2O')
    write_h5(tab, os.path.join(dA, 'a.h5'), 'CO2', 'atm', 101325.0)
    write_h5(tab, os.path.join(dA, 'b.hdf5'), 'NH3', 'Pa', 1.0)
    write_exo(tab, os.path.join(dA, 'opacCH4.dat'))
    write_all(tab2, dB, '1H2-16O', 'H2O')
    mols = ['H2O', 'CO2', 'NH3', 'CH4']
    pts = [(300.0, 2.5e2), (777.0, 3.3e4), (2100.0, 9e5)]
    pts = [(T, P) for T, P in pts if tab['t'][0] < T < tab['t'][-1]
           and tab2['t'][0] < T < tab2['t'][-1]]
    ok(len(pts) >= 2, 'sample points inside both tables')

    n_loads = [0]

    def counting_init(self, *args, **kwargs):
        n_loads[0] += 1
        saved_init(self, *args, **kwargs)
    PickleOpacity.__init__ = counting_init

    oc = OpacityCache()
    ok(OpacityCache() is oc, 'singleton')
    for key in ('xsec_interpolation', 'xsec_in_memory', 'xsec_path'):
        GlobalCache()[key] = None
    oc.clear_cache()
    oc.force_active([])
    raises(lambda: oc.set_opacity_path(os.path.join(workdir, 'nope')),
           NotADirectoryError, 'bad path refused')
    oc.set_opacity_path(dA)
    ok(oc.find_list_of_molecules() == set(mols), 'molecules in path')
    oc.force_active(['XYZ'])
    ok(oc.find_list_of_molecules() == set(mols + ['XYZ']), 'forced molecules')
    oc.force_active([])

    h2o = oc['H2O']
    ok(n_loads[0] == 1 and list(oc.opacity_dict) == ['H2O'],
       'one file read for one request')
    ok(oc['H2O'] is h2o and oc['H2O'] is h2o and n_loads[0] == 1,
       'later requests do not read again')
    served = {m: oc[m] for m in mols}
    ok([type(served[m]).__name__ for m in mols] ==
       ['PickleOpacity', 'HDF5Opacity', 'HDF5Opacity', 'ExoTransmitOpacity'],
       'reader per container')
    for m in mols:
        ok(served[m].moleculeName == m, 'name ' + m)
        close(served[m].pressureGrid, tab['p_pa'], m + ' pressure in Pa', 1e-9)
        close(served[m].temperatureGrid, tab['t'], m + ' T axis')
        close(served[m].wavenumberGrid, tab['wn'], m + ' wn axis', 1e-13)
        close(np.asarray(served[m].xsecGrid[...])/1e4, tab['sig'],
              m + ' table', 1e-9)
        for T, P in pts:
            close(oc[m].opacity(T, P), reference(tab, T, P, 'linear'),
                  '%s linear T=%g P=%g' % (m, T, P), 1e-8)
    raises(lambda: oc['SO2'], Exception, 'unknown molecule raises')
    ok(sorted(oc.opacity_dict) == sorted(mols), 'failed request adds nothing')

    for mode in ('exp', 'linear', 'exp'):
        before = dict(oc.opacity_dict)
        oc.set_interpolation(mode)
        ok(oc.opacity_dict == {}, 'set_interpolation empties the cache')
        for m in mols:
            ok(oc[m] is not before[m], m + ' is loaded again')
            ok(oc[m] is oc[m], m + ' then cached')
            for T, P in pts:
                close(oc[m].opacity(T, P), reference(tab, T, P, mode),
                      '%s %s T=%g P=%g' % (m, mode, T, P), 1e-8)
    oc.set_interpolation('linear')

    # a path change is honoured for what has not been served yet
    loads = n_loads[0]
    kept = oc['H2O']
    oc.set_opacity_path(dB)
    ok(oc['H2O'] is kept, 'served molecule survives a path change')
    raises(lambda: oc['CH4'], Exception, 'CH4 is not in the new path')
    oc.clear_cache()
    fresh = oc['H2O']
    ok(fresh is not kept and n_loads[0] == loads + 2, 'reloaded once')
    for T, P in pts:
        close(fresh.opacity(T, P), reference(tab2, T, P, 'linear'),
              'new path table', 1e-8)

    # an opacity handed in is served as is, and is not replaced
    oc.clear_cache()
    mine = PickleOpacity(os.path.join(dA, '1H2-16O.R1.pickle'))
    oc.add_opacity(mine)
    ok(oc['H2O'] is mine, 'manual opacity served')
    oc.add_opacity(PickleOpacity(os.path.join(dB, '1H2-16O.R1.pickle')))
    ok(oc['H2O'] is mine, 'first one wins')
    oc.add_opacity(mine, molecule_filter=['CO2'])
    oc.clear_cache()
    oc.add_opacity(mine, molecule_filter=['CO2'])
    ok(oc.opacity_dict == {}, 'filtered out')
    oc.load_opacity(opacities=[mine], molecule_filter=['H2O'])
    ok(oc.opacity_dict == {'H2O': mine}, 'list of opacities')
    raises(lambda: oc.load_opacity(opacities=3), Exception, 'bad type')
    oc.set_memory_mode(True)
    ok(oc.opacity_dict == {}, 'set_memory_mode empties the cache')
finally:
    PickleOpacity.__init__ = saved_init
    OpacityCache().clear_cache()
    CIACache().cia_dict = {}
    shutil.rmtree(workdir, ignore_errors=True)

print('C14 demo B: %d checks passed' % CHECKS[0])
