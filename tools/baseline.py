#!/venv/bin/python
"""Compare a junit xml of the repo's suite with BASELINE.json's stable_pass."""
import json, sys, xml.etree.ElementTree as ET
base = json.load(open('/root/.vp/BASELINE.json'))
tree = ET.parse(sys.argv[1])
res = {}
for tc in tree.iter('testcase'):
    name = '%s::%s' % (tc.get('classname'), tc.get('name'))
    ok = not any(ch.tag in ('failure', 'error', 'skipped') for ch in tc)
    res[name] = ok
import re


def norm(name):
    # tests/factory/test_factories.py numbers its parametrised cases in the
    # iteration order of a set of classes, so 'test_input16' is another number
    # in another process; compare those cases by their class/factory suffix
    return re.sub(r'test_input\d+-', 'test_inputN-', name)


nres = {}
for k, v in res.items():
    nres[norm(k)] = nres.get(norm(k), False) or v
missing = [t for t in base['stable_pass']
           if not res.get(t, False) and not nres.get(norm(t), False)]
print('stable_pass: %d, passing now: %d' % (len(base['stable_pass']), len(base['stable_pass']) - len(missing)))
for m in missing:
    print('NOT PASSING:', m, res.get(m))
sys.exit(1 if missing else 0)
