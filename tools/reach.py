#!/venv/bin/python
"""Line reach of a check inside the files its property is anchored in.

    tools/reach.py <PROP> [--runs N] [--tier quick|thorough] [--all-files]

Runs N seeded cases of the check in this process under coverage.py (threads
included: the simulated MPI ranks are threads) and prints, for every file
listed under the property's anchors (or every taurex file with --all-files),
the share of executable lines reached and the line ranges never reached.  A
diagnostic for the author (which anchored code does the workload never
enter?), not part of any registered check.  numba-compiled kernels execute
outside the interpreter and show as unreached.
"""
import argparse
import json
import os
import sys

ROOT = os.path.dirname(os.path.dirname(os.path.abspath(__file__)))
sys.path.insert(0, ROOT)
os.environ.setdefault('PYTHONHASHSEED', '0')
os.environ.setdefault('NUMBA_NUM_THREADS', '1')


def ranges(nums):
    out = []
    for n in sorted(nums):
        if out and out[-1][1] == n - 1:
            out[-1][1] = n
        else:
            out.append([n, n])
    return ','.join('%d' % a if a == b else '%d-%d' % (a, b) for a, b in out)


def main():
    ap = argparse.ArgumentParser()
    ap.add_argument('prop')
    ap.add_argument('--runs', type=int, default=150)
    ap.add_argument('--tier', default='quick')
    ap.add_argument('--all-files', action='store_true')
    ap.add_argument('--seed', type=int, default=20260927)
    a = ap.parse_args()
    import warnings
    warnings.filterwarnings('ignore')
    import coverage
    src = os.path.join(os.environ.get('VERIF_REPO', '/repo'), 'taurex')
    cov = coverage.Coverage(source=[src], concurrency=['thread'],
                            data_file=None)
    cov.start()            # before taurex is imported: def lines count as run
    import importlib
    from sim.kernel import H, jsonable
    mod = importlib.import_module('checks.' + a.prop.lower())
    if hasattr(mod, 'warmup'):
        mod.warmup()
    scratch = '/dev/shm/reach-%d' % os.getpid()
    os.makedirs(scratch, exist_ok=True)
    os.environ['VERIF_RUN_SCRATCH'] = scratch
    nviol = 0
    for i in range(a.runs):
        case = mod.generate(H(a.seed, a.prop, i), a.tier)
        case['property'] = a.prop
        case = jsonable(case)
        out = mod.execute(case)
        nviol += len(out.violations)
    cov.stop()
    import shutil
    shutil.rmtree(scratch, ignore_errors=True)
    anchors = None
    for ln in open(os.path.join(ROOT, 'properties.jsonl')):
        d = json.loads(ln)
        if d['id'] == a.prop:
            anchors = d['anchors']['files']
    data = cov.get_data()
    files = sorted(data.measured_files())
    print('%s: %d runs, %d violations' % (a.prop, a.runs, nviol))
    repo = os.path.dirname(src)
    want = [os.path.join(repo, f) for f in anchors if '*' not in f]
    if a.all_files:
        want = files
    for f in want:
        try:
            _, stmts, _, missing, _ = cov.analysis2(f)
        except Exception as e:
            print('%-55s not measured (%s)' % (os.path.relpath(f, repo), e))
            continue
        pct = 100.0 * (len(stmts) - len(missing)) / max(1, len(stmts))
        print('%-55s %5.1f%% of %4d  missing: %s'
              % (os.path.relpath(f, repo), pct, len(stmts),
                 ranges(missing)[:600]))


if __name__ == '__main__':
    main()
