#!/bin/bash
# tools/multiseed.sh <seed>...   quick tier of every claimed property at each VERIF_SEED; prints one line per (seed, property)
cd "$(dirname "$0")/.."
for seed in "$@"; do
  for p in C07 C18 C06 C09 C14 C16 C03; do
    out=$(VERIF_SEED=$seed ./check $p --tier quick --no-evidence 2>&1); rc=$?
    echo "seed=$seed $p rc=$rc $(echo "$out" | grep -a -E '^(VIOLATION|HARNESS)' | head -2 | tr '\n' ' ')"
    if [ $rc -ne 0 ]; then echo "$out" | grep -a -A3 -E '^(VIOLATION|HARNESS)' | head -20; fi
  done
done
