#!/bin/bash
# tools/try_patch.sh <PROP> <patchfile> [extra check args]: run the quick check of PROP against a scratch worktree with the patch applied
set -e
P=$1; PATCH=$2; shift 2
WT=$(mktemp -u -p /dev/shm trypatch-XXXXXX)
git -C /repo worktree add --detach "$WT" HEAD >/dev/null 2>&1
trap 'git -C /repo worktree remove --force "$WT" >/dev/null 2>&1; rm -rf "$WT"; git -C /repo worktree prune' EXIT
git -C "$WT" apply "$PATCH"
cd /verif && VERIF_REPO="$WT" ./check "$P" --tier quick --no-evidence "$@" 2>&1 | grep -E "^(VIOLATION|HARNESS|KNOWN|  class=|runs=)" | head -12
echo "rc=${PIPESTATUS[0]}"
