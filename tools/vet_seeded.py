#!/venv/bin/python
"""Vet one change written by a sub-agent and file it under /verif/seeded/.

    tools/vet_seeded.py <PROP> <srcdir> <name> [--no-tests]

<srcdir> holds patch.diff, demo.py, notes.md.  In a scratch worktree of /repo:
  1. demo on the clean tree must exit 0
  2. the patch must apply; the package must import
  3. the repo's baseline suite must still pass (stable_pass of BASELINE.json)
  4. demo with the patch must exit non-zero
  5. our quick check for <PROP> is run against the patched tree (VERIF_REPO)
Everything is recorded in seeded/<PROP>-<name>/meta.json; the worktree is removed.
"""
import json, os, shutil, subprocess, sys, tempfile, time

ROOT = os.path.dirname(os.path.dirname(os.path.abspath(__file__)))
PY = '/venv/bin/python'


def sh(cmd, **kw):
    return subprocess.run(cmd, stdout=subprocess.PIPE, stderr=subprocess.STDOUT, **kw)


def main():
    prop, src, name = sys.argv[1:4]
    run_tests = '--no-tests' not in sys.argv
    dst = os.path.join(ROOT, 'seeded', '%s-%s' % (prop, name))
    os.makedirs(dst, exist_ok=True)
    for f in ('patch.diff', 'demo.py', 'notes.md'):
        shutil.copy(os.path.join(src, f), os.path.join(dst, f))
    wt = tempfile.mkdtemp(prefix='vet-', dir='/dev/shm'); os.rmdir(wt)
    meta = {'property': prop, 'name': name, 'vetted_at_repo_rev': sh(['git', '-C', '/repo', 'rev-parse', 'HEAD']).stdout.decode().strip()}
    try:
        assert sh(['git', '-C', '/repo', 'worktree', 'add', '--detach', wt, 'HEAD']).returncode == 0
        os.makedirs(os.path.join(wt, '_mut', 'X'))
        shutil.copy(os.path.join(dst, 'demo.py'), os.path.join(wt, '_mut', 'X', 'demo.py'))
        env = dict(os.environ, PYTHONDONTWRITEBYTECODE='1')
        r = sh([PY, '_mut/X/demo.py'], cwd=wt, env=env, timeout=1800)
        meta['demo_clean_rc'] = r.returncode
        r = sh(['git', '-C', wt, 'apply', os.path.join(dst, 'patch.diff')])
        meta['patch_applies'] = r.returncode == 0
        if r.returncode != 0:
            meta['patch_error'] = r.stdout.decode()[-500:]
        r = sh([PY, '-c', 'import taurex, os; print(os.path.dirname(taurex.__file__))'], cwd=wt, env=env)
        meta['imports_from_worktree'] = r.returncode == 0 and wt in r.stdout.decode()
        r = sh([PY, '_mut/X/demo.py'], cwd=wt, env=env, timeout=1800)
        meta['demo_patched_rc'] = r.returncode
        meta['demo_patched_tail'] = r.stdout.decode(errors='replace')[-600:]
        if run_tests:
            xml = os.path.join(wt, '_junit.xml')
            t0 = time.time()
            sh([PY, '-m', 'pytest', '-q', '-p', 'no:cacheprovider', '--timeout=900',
                '--continue-on-collection-errors', '--junitxml=' + xml], cwd=wt, env=env, timeout=3000)
            r = sh([PY, os.path.join(ROOT, 'tools', 'baseline.py'), xml])
            meta['baseline_stable_pass_ok'] = r.returncode == 0
            meta['baseline_tail'] = r.stdout.decode()[-400:]
            meta['baseline_wall_s'] = round(time.time() - t0)
        args = [os.path.join(ROOT, 'check'), prop, '--tier', 'quick', '--no-evidence']
        r = sh(args, cwd=ROOT, env=dict(os.environ, VERIF_REPO=wt), timeout=3600)
        out = r.stdout.decode(errors='replace')
        meta['check_rc'] = r.returncode
        meta['check_caught'] = r.returncode == 1 and 'VIOLATION' in out
        meta['check_violations'] = [ln.strip() for ln in out.splitlines() if ln.startswith('  class=')][:5]
        meta['ran'] = ['demo on clean worktree', 'git apply patch.diff', 'import taurex from worktree',
                       'demo on patched worktree', 'baseline suite vs stable_pass' if run_tests else 'baseline suite skipped',
                       'VERIF_REPO=<worktree> ./check %s --tier quick' % prop]
    finally:
        sh(['git', '-C', '/repo', 'worktree', 'remove', '--force', wt])
        shutil.rmtree(wt, ignore_errors=True)
        sh(['git', '-C', '/repo', 'worktree', 'prune'])
    notes = open(os.path.join(dst, 'notes.md')).read()
    meta['needs_to_manifest'] = notes[:1500]
    json.dump(meta, open(os.path.join(dst, 'meta.json'), 'w'), indent=1)
    print(json.dumps({k: v for k, v in meta.items() if k not in ('needs_to_manifest', 'demo_patched_tail', 'baseline_tail')}, indent=1))


if __name__ == '__main__':
    main()
