"""Light-weight tables read by the supervisor (no heavy imports here)."""

TIERS = {
    'C07': {
        'quick': dict(runs=4000, workers=16, batch_timeout=600,
                      run_timeout=60, determinism=96, shrink_budget=40),
        'thorough': dict(runs=400000, workers=16, batch_timeout=7200,
                         run_timeout=60, determinism=512, shrink_budget=120),
    },
}

COMMON_ASSUMPTIONS = [
    'the tree under test is /repo\'s working tree as imported by '
    '/venv/bin/python (editable install) at the time the check starts',
    'a clean batch is evidence over the sampled schedules/histories, not a '
    'proof',
]

META = {
    'C07': {
        'rule': 'one run = one seeded history of optimizer operations '
                '(enable/disable fit, set_mode, set_boundary, '
                'set_factor_boundary, set_prior, enable/disable derived, '
                'compile_params, update_model, direct parameter writes, misuse '
                'faults) on a long-lived Optimizer+model+observation; '
                'non-trivial = at least two compilations with a settings '
                'change in between, or at least one injected misuse fault; '
                'distinct = distinct hash of the sequence of (reference '
                'settings state at each compile, whether an earlier compile '
                'existed, fault kinds fired)',
        'probes': ['recompile_after_change', 'mixed_space_prior',
                   'derived_disabled_after_enable', 'obs_param_fitted',
                   'update_after_direct_write', 'misuse_fired',
                   'real_model_run'],
        'real': ['taurex.optimizer.Optimizer (all mutators and views)',
                 'taurex.data.fittable.Fittable', 'taurex.core.priors',
                 'taurex.model.ForwardModel parameter tables',
                 'SimpleForwardModel.collect_fitting_parameters over a real '
                 'small TransmissionModel (share of runs)'],
        'stub': ['toy ForwardModel/BaseSpectrum subclasses with configurable '
                 'parameter tables (harness)', 'in-memory opacity tables'],
        'assumptions': COMMON_ASSUMPTIONS + [
            'bounds and values are > 0 (log10 precondition of log-space '
            'parameters)',
            'views are compared immediately after compile_params(); between a '
            'settings change and the next compile they are unspecified',
            'with a user prior, fit_boundaries may be either the parameter '
            'bounds or the prior\'s own boundaries, but must be in the '
            'prior\'s space',
        ],
    },
}
