"""Light-weight tables read by the supervisor (no heavy imports here)."""

TIERS = {
    'C07': {
        'quick': dict(runs=4000, workers=16, batch_timeout=600,
                      run_timeout=60, determinism=96, shrink_budget=40),
        'thorough': dict(runs=400000, workers=16, batch_timeout=7200,
                         run_timeout=60, determinism=512, shrink_budget=120),
    },
    'C18': {
        'quick': dict(runs=1600, workers=16, batch_timeout=900,
                      run_timeout=120, determinism=24, shrink_budget=90,
                      shrink_timeout=400),
        'thorough': dict(runs=60000, workers=16, batch_timeout=10800,
                         run_timeout=120, determinism=128, shrink_budget=240,
                         shrink_timeout=900),
    },
    'C06': {
        'quick': dict(runs=640, workers=16, batch_timeout=900,
                      run_timeout=180, determinism=32, shrink_budget=90,
                      shrink_timeout=400),
        'thorough': dict(runs=40000, workers=16, batch_timeout=10800,
                         run_timeout=300, determinism=128, shrink_budget=240,
                         shrink_timeout=900),
    },
    'C09': {
        'quick': dict(runs=1600, workers=16, batch_timeout=900,
                      run_timeout=180, determinism=24, shrink_budget=90,
                      shrink_timeout=400),
        'thorough': dict(runs=30000, workers=16, batch_timeout=10800,
                         run_timeout=300, determinism=128, shrink_budget=240,
                         shrink_timeout=900),
    },
    'C14': {
        'quick': dict(runs=4000, workers=16, batch_timeout=900,
                      run_timeout=120, determinism=32, shrink_budget=90,
                      shrink_timeout=400),
        'thorough': dict(runs=120000, workers=16, batch_timeout=10800,
                         run_timeout=120, determinism=256, shrink_budget=240,
                         shrink_timeout=900),
    },
    'C16': {
        'quick': dict(runs=1600, workers=16, batch_timeout=900,
                      run_timeout=120, determinism=32, shrink_budget=90,
                      shrink_timeout=400),
        'thorough': dict(runs=100000, workers=16, batch_timeout=10800,
                         run_timeout=120, determinism=256, shrink_budget=240,
                         shrink_timeout=900),
    },
    'C03': {
        'quick': dict(runs=1200, workers=16, batch_timeout=900,
                      run_timeout=180, determinism=24, shrink_budget=90,
                      shrink_timeout=400),
        'thorough': dict(runs=40000, workers=16, batch_timeout=10800,
                         run_timeout=300, determinism=128, shrink_budget=240,
                         shrink_timeout=900),
    },
}

COMMON_ASSUMPTIONS = [
    'the tree under test is /repo\'s working tree as imported by '
    '/venv/bin/python (editable install) at the time the check starts',
    'a clean batch is evidence over the sampled schedules/histories, not a '
    'proof',
]

META = {
    'C07': {
        'rule': 'one run = one seeded history of optimizer operations '
                '(enable/disable fit, set_mode, set_boundary, '
                'set_factor_boundary, set_prior, enable/disable derived, '
                'compile_params, update_model, direct parameter writes, settings '
                'arriving through an input file\'s [Fitting]/[Derive] sections '
                'via ParameterParser.setup_optimizer, misuse faults incl. input '
                'files naming unknown parameters; bounds changed through the '
                'component-level modify_bounds or by changing, in place, the '
                'very list handed to set_boundary; a second optimizer on the '
                'same tables; the model rebuilt, also after a component and '
                'its parameter were removed; a plug-in prior class) on a '
                'long-lived Optimizer+model+observation; '
                'non-trivial = at least two compilations with a settings '
                'change in between, or at least one injected misuse fault; '
                'distinct = distinct hash of the sequence of (reference '
                'settings state at each compile, whether an earlier compile '
                'existed, fault kinds fired)',
        'probes': ['recompile_after_change', 'mixed_space_prior',
                   'derived_disabled_after_enable', 'obs_param_fitted',
                   'update_after_direct_write', 'misuse_fired',
                   'real_model_run', 'settings_from_input_file',
                   'nonpositive_param_fitted',
                   'setting_changed_by_second_optimizer',
                   'same_vector_written_again', 'module_level_compile',
                   'model_rebuilt', 'bounds_changed_on_component',
                   'bounds_list_changed_in_place',
                   'component_removed_and_rebuilt', 'removed_parameter_named',
                   'plugin_prior_compiled',
                   'prior_limits_changed_on_live_object'],
        'real': ['taurex.optimizer.Optimizer (all mutators and views)',
                 'ParameterParser.read / generate_fitting_parameters / '
                 'setup_optimizer, create_prior (prior text form)',
                 'taurex.data.fittable.Fittable', 'taurex.core.priors',
                 'taurex.model.ForwardModel parameter tables',
                 'SimpleForwardModel.collect_fitting_parameters over a real '
                 'small TransmissionModel (share of runs)'],
        'stub': ['toy ForwardModel/BaseSpectrum subclasses with configurable '
                 'parameter tables (harness)', 'in-memory opacity tables'],
        'assumptions': COMMON_ASSUMPTIONS + [
            'bounds and values are > 0 wherever a log space can be involved '
            '(log10 precondition); a share of the parameters lives in linear '
            'space only (linear mode, Uniform/Gaussian priors) with signed '
            'bounds and values incl. exactly 0',
            'at every build of a real model (transmission, emission, direct '
            'image) the parameter tables it offers must be the union of what '
            'its components and the model object itself declare',
            'views are compared immediately after compile_params(); between a '
            'settings change and the next compile they are unspecified',
            'with a user prior, fit_boundaries may be either the parameter '
            'bounds or the prior\'s own boundaries, but must be in the '
            'prior\'s space',
        ],
    },
    'C18': {
        'rule': 'one run = one simulated MPI job: R rank threads (baton-passed, '
                'pre-emption at collectives, every exchange pickled per '
                'receiver), each with its own real model/optimizer, running '
                'generate_profiles and compute_derived_trace on a generated '
                'posterior (in a share of runs a second solution with another '
                'posterior is post-processed by the same objects; a share of '
                'runs drives the streaming accumulator directly: any '
                'assignment of samples to ranks, pooled result asked at '
                'several checkpoints of the same accumulators, values through '
                'one re-filled buffer, 2-D values in C or Fortran order, a NaN '
                'component, a single process without mpi4py); non-trivial = R >= 2; distinct = distinct (R, '
                'per-rank sample-count vector, N, arrival order of ranks at '
                'every collective)',
        'probes': ['rank_with_0_samples', 'rank_with_1_sample', 'tied_weights',
                   'zero_weights', 'fewer_than_2_processed',
                   'second_solution_same_objects',
                   'second_fit_same_optimizer', 'accumulator_history',
                   'pooled_result_asked_again', 'tied_derived_values',
                   'condensate_profiles'],
        'real': ['Optimizer.generate_profiles / sample_parameters / '
                 'compute_derived_trace', 'SimpleForwardModel.compute_error',
                 'OnlineVariance (update, parallelVariance, combine_variance)',
                 'all taurex.mpi call sites', 'TransmissionModel/EmissionModel/'
                 'DirectImageModel with Absorption/CIA/Rayleigh/SimpleClouds/'
                 'FlatMie/LeeMie, TaurexChemistry, ConstantGas, '
                 'Isothermal/Guillot, ArraySpectrum, FluxBinner',
                 'quantile_corner'],
        'stub': ['mpi4py -> in-process module whose COMM_WORLD is SimWorld '
                 '(sim/mpi_world.py): the real wrappers of taurex/mpi.py '
                 '(allgather, allreduce, broadcast incl. the ndarray Bcast '
                 'branch, barrier, only_master_rank) run on top of it; only '
                 'get_rank/nprocs are replaced directly (lru_cached per '
                 'process, ranks are threads)',
                 'sampler -> Optimizer subclass returning the generated '
                 'posterior from get_samples/get_weights',
                 'opacity data -> in-memory InterpolatingOpacity/CIA tables'],
        'assumptions': COMMON_ASSUMPTIONS + [
            'mpi4py lower-case collectives pickle their arguments; allgather '
            'returns rank order; object allreduce(SUM) folds with + in rank '
            'order; Bcast of an ndarray is a copy',
            'ranks share no memory: pre-emption only at collectives is '
            'faithful',
            'variances (not stds) are compared, tolerance 1e-9*(var+max|x|^2) '
            '(round-off of the streaming update scales with the largest sample, '
            'whatever its weight); '
            'subsets whose weights are all < 1e-280 are compared for NaN '
            'pattern only (sub-normal round-off)',
            'posterior samples lie in the valid region of the model',
            'weights reach the accumulator as Optimizer.sample_parameters '
            'hands them over (+1e-300, never exactly zero)',
            'where derived values tie between samples of different weight the '
            'quantile rule depends on the order of the tied samples: the '
            'oracle is then the same code on one rank, and the envelope of '
            'the rule over all orders of the tied samples',
            'condensate profiles come from a harness subclass of '
            'TaurexChemistry that reports two condensates (no built-in '
            'chemistry does)',
        ],
    },
    'C06': {
        'rule': 'one run = one sampler session: the wrapped sampler entry '
                'point (nestle.sample / pymultinest.run / '
                'pypolychord.run_polychord) is a double that drives the prior '
                'and likelihood callbacks of the real wrapper from a seeded op '
                'list (prior-only calls, prior+likelihood, re-evaluation of '
                'earlier points, cube corners, bursts aimed at invalid '
                'atmospheres, armed contribution faults; in a share of runs '
                'the same long-lived optimizer is re-configured through its '
                'public mutators - priors narrowed or replaced, modes flipped, '
                'parameters dropped or brought back - and fitted again, one or '
                'two times); every callback is '
                'compared with an independent oracle (inverse CDFs; Gaussian '
                'log-likelihood of a reference-binned fresh model set by '
                'name); non-trivial = at least two likelihood callbacks; '
                'distinct = distinct (sampler, fitted names, prior kinds, '
                'run-length pattern of valid/invalid/fault callbacks)',
        'probes': ['valid_right_after_invalid', 'repeated_point',
                   'mixed_space_prior', 'obs_param_fitted', 'exact_fit_run',
                   'refit_session', 'observation_replaced', 'model_replaced',
                   'factor_boundary_between_fits', 'cube_face_exactly'],
        'real': ['NestleOptimizer/MultiNestOptimizer/PolyChordOptimizer '
                 'compute_fit closures', 'Optimizer.compile_params / '
                 'update_model / chisq_trans', 'taurex.core.priors',
                 'ArraySpectrum, FluxBinner, NativeBinner',
                 'TransmissionModel/EmissionModel/DirectImageModel with '
                 'Absorption/CIA/Rayleigh/SimpleClouds/FlatMie/LeeMie, '
                 'Isothermal/Guillot2010 (fitted), TaurexChemistry '
                 '(InvalidChemistryException path)'],
        'stub': ['nestle.sample, pymultinest.run, pypolychord.run_polychord '
                 '-> session doubles (sim/samplers.py)',
                 'toy analytic ForwardModel/BaseSpectrum (share of runs)',
                 'FaultyContribution raising InvalidModelException when armed',
                 'opacity data -> in-memory tables'],
        'assumptions': COMMON_ASSUMPTIONS + [
            'calling conventions of the absent libraries: MultiNest passes an '
            'item-access-only cube and expects in-place prior writes; '
            'PolyChord expects (logL, [derived]) and a returned list from the '
            'prior',
            'observation bins lie strictly inside the native range and are >= 2 '
            'native spacings wide (binning unambiguous; reference binner agrees '
            'with FluxBinner to 6e-16 on 300 such layouts)',
            'likelihood tolerance 1e-10*|L|+1e-9; prior tolerance 1e-9',
            'invalid atmospheres reachable here: sum of mixing ratios > 1, '
            'negative Guillot irradiation temperature, toy limit, injected '
            'contribution faults (with derived parameters mu/logg/avg_T '
            'switched on or off); a model whose spectrum is '
            'not finite (e.g. NaN temperatures from a negative Guillot '
            'opacity in the tail of a Gaussian prior) must give a non-finite '
            'callback value',
            'a parameter fitted by an earlier session and no longer fitted '
            'keeps the value last written (oracle and untouched-check follow '
            'that)',
        ],
    },
    'C09': {
        'rule': 'one run = one Optimizer.fit() end to end on R simulated ranks '
                'with the sampler replaced by a peer that returns a generated '
                'posterior (nestle Result object, MultiNest files, PolyChord '
                'files; a share of runs use the real seeded nestle; in a share '
                'of runs the same optimizer object is fitted a second time '
                'with another posterior and number of modes); the '
                'solution dictionary is compared with references computed '
                'from the sampler output as written; all runs are '
                'non-trivial; distinct = distinct (sampler, number of modes, '
                'mode sizes, weight families, R, fitted and derived names, '
                'sigma_fraction)',
        'probes': ['unequal_modes', 'multi_mode', 'tied_weights',
                   'real_nestle_run', 'second_fit_same_optimizer',
                   'derived_trace_with_nan',
                   'observation_replaced_between_fits',
                   'tied_sample_values', 'tied_derived_values',
                   'polychord_without_clustering'],
        'real': ['Optimizer.fit / generate_solution / generate_profiles / '
                 'compute_derived_trace', 'store_nestle_output, '
                 'store_nest_solutions, store_polychord_solutions, '
                 'get_poly_stats', 'quantile_corner', 'binner '
                 'generate_spectrum_output, store_contributions',
                 'real nestle library (share of runs, seeded np.random)',
                 'Transmission/Emission/DirectImage models with '
                 'Absorption/CIA/Rayleigh/SimpleClouds/FlatMie/LeeMie'],
        'stub': ['nestle.sample double returning nestle.Result',
                 'pymultinest double writing <base>.txt, post_separate.dat, '
                 'stats.dat and serving Analyzer.get_stats',
                 'pypolychord double writing 1-.txt, 1-.stats, clusters/ '
                 '(.stats layout reconstructed from the wrapper: '
                 'lowest-fidelity stub)', 'mpi4py -> SimWorld',
                 'in-memory opacity tables'],
        'assumptions': COMMON_ASSUMPTIONS + [
            'MultiNest text layout: columns weight, -2logL, parameters; modes '
            'in post_separate.dat separated by two blank lines; Analyzer '
            'reports per-mode mean/sigma/maximum/MAP in multimodal runs and no '
            'modes otherwise',
            'MAP: nestle = ONE stored sample of greatest weight (all '
            'coordinates from the same row); MultiNest = the MAP the sampler '
            'reported; PolyChord = only required to be one stored sample',
            'where sample (or derived) values tie, the quantile rule depends '
            'on the order of the tied samples only through the weight of the '
            'first of each tied block: the result must lie in the envelope '
            'spanned by the two extreme orders (exact otherwise); weights may '
            'tie freely',
            'weights need not sum to one (PolyChord scales them to a maximum '
            'of one, a MultiNest mode holds its share): means and quantiles '
            'are scale free',
            'PolyChord with clustering switched off writes only the main '
            'chain file and a one-row .stats; cluster files of an earlier '
            'run may still lie in the directory',
            'resume/crash of the external samplers is out of scope',
        ],
    },
    'C14': {
        'rule': 'one run = one history of cache operations (set path, set '
                'interpolation, memory mode, clear, get, interior probe, '
                'add_opacity, list loads, listings of available molecules / '
                'k-tables, CIA and k-table requests) interleaved with '
                'storage events (file replaced / removed / added, listing '
                'order and format-class order permuted, a container cut short as '
                'by a torn write) over a per-run scratch '
                'store holding the same physical tables in every container '
                'format (Exo-Transmit wavelength blocks ascending, descending '
                'or shuffled; HDF5 molecule name scalar or array, with or '
                'without DOI; HITRAN blocks shuffled); checked op by op against a dict reference model; '
                'non-trivial = at least one container actually loaded; '
                'distinct = distinct (set of formats loaded, set of op-kind '
                'trigrams, storage fault kinds fired)',
        'probes': ['served_again', 'duplicate_containers',
                   'cleared_while_populated', 'replaced_after_served',
                   'removed_after_served', 'mode_discriminating_probe',
                   'missing_molecule_requested', 'added_object_other_mode',
                   'load_failed_beside_corrupt_file',
                   'request_on_node_subrange', 'reader_constructed_directly',
                   'ktable_path_changed_without_clear',
                   'missing_ktable_requested', 'cia_object_handed_over'],
        'real': ['PickleOpacity, HDF5Opacity, ExoTransmitOpacity, '
                 'PickleKTable, HDF5KTable, PickleCIA, HitranCIA',
                 'OpacityCache, KTableCache, CIACache, GlobalCache',
                 'ClassFactory format discovery, sanitize_molecule_string',
                 'InterpolatingOpacity interior interpolation (both modes)',
                 'real files through open/pickle/h5py on a scratch directory'],
        'stub': ['container writers (sim/storage.py) with layouts taken from '
                 'the readers', 'glob.glob -> seeded permutation of the '
                 'listing', 'ClassFactory class sets -> lists in seeded order'],
        'assumptions': COMMON_ASSUMPTIONS + [
            'the two k-table directories hold different tables of a molecule '
            '(what is served tells where it came from); after the k-table '
            'path is changed without clearing, loaded objects stay and new '
            'requests come from the newly configured directory',
            'duplicate containers of one molecule in one directory hold the '
            'same table (which wins is discovery order, part of the schedule)',
            'probes lie strictly inside a (T, log P) cell; tolerance 1e-9 '
            'relative; table equality 1e-12 relative (+1e-60 m2 documented '
            'Exo-Transmit offset)',
            'one CIA container per pair per directory; HITRAN blocks with '
            'per-temperature wavenumber ranges are unified by the documented '
            'rule (zero outside a range\'s temperatures, linear inside)',
            'k-table interpolation mode is checked for loads after an explicit '
            'KTableCache.clear_cache()',
            'NEMESIS k-tables and RADIS are not in the statement',
            'pressure units of the HDF5 containers: Pa, bar, kPa, mbar, MPa, '
            'mPa, hPa, uPa, Torr and the CDS-only atm and mmHg',
            'listing the molecules or k-tables of an intact store must not '
            'raise',
            'beside a cut-short container a request may fail (discovery opens '
            'every file); whatever is served must still be the right table '
            'from the configured path, and load_opacity(opacity_path=...) '
            'must leave the configured path as it was',
            'a node probe allows the round-off of the largest neighbouring '
            'table value (a + (b-a)*1 loses b when |a| >> |b|)',
        ],
    },
    'C16': {
        'rule': 'one run = one history of store operations in phases (open w, '
                'nested groups, store_dictionary of generated nested result '
                'dictionaries, spectrum dictionaries from a real binner and '
                'model at every output size - also for results on sub-ranges '
                'and on same-length grids of another spacing through one '
                'shared binner -, model.write, close, re-open in append mode, '
                'a name of an earlier phase stored again with values that do '
                'not fit the stored types) executed on R simulated ranks, then read back '
                'with plain h5py and compared with a nested-dict reference; '
                'reload runs rebuild the model from the file and compare '
                'component types, constructor values and spectrum; all runs '
                'non-trivial; distinct = distinct (part, set of (leaf type, '
                'depth), number of phases, R, spectrum ops, contributions, '
                'model family)',
        'probes': ['append_phase', 'reload_run', 'solution_store_run',
                   'same_length_other_spacing', 'stored_again_refused',
                   'parameter_changed_before_write',
                   'written_after_later_evaluations',
                   'another_file_loaded_first',
                   'loaded_with_replacements_first',
                   'damaged_model_file_refused',
                   'lightcurve_result_stored'],
        'real': ['HDF5Output / HDF5OutputGroup', 'Output.store_dictionary, '
                 'recursively_save_dict_contents_to_output, store_thing',
                 'Binner/FluxBinner/SimpleBinner/NativeBinner '
                 'generate_spectrum_output', 'every component write() of the '
                 'generated models', 'taurex.util.hdf5.taurex_hdf5_to_model',
                 'h5py on a real file in a scratch directory'],
        'stub': ['mpi4py -> SimWorld (only get_rank matters here)',
                 'in-memory opacity tables'],
        'assumptions': COMMON_ASSUMPTIONS + [
            'keys are compared after str(); strings are ASCII; string-list '
            'elements and strings may exceed 64 characters (reported under a '
            'separate key)',
            'components limited to those that run on Python 3.12 / NumPy 2: '
            'Isothermal, Guillot2010, Rodgers2000, TemperatureArray, '
            'ConstantGas, TwoPointGas, ArrayGas, PowerGas, 1-3 fill gases, '
            'SimplePressureProfile, Planet, BlackbodyStar (every constructor '
            'argument varied), Absorption, CIA, Rayleigh, SimpleClouds, '
            'FlatMie, LeeMie, HydrogenIon; transmission, emission, direct '
            'image',
            'a second store under an existing name may be refused (file '
            'unchanged) or accepted (file holds the new values exactly); '
            'anything in between is a violation',
            'crash consistency of the HDF5 file is not promised by the '
            'property and is not injected',
        ],
    },
    'C03': {
        'rule': 'one run = one call history on a long-lived TransmissionModel '
                'built from a seeded subset/ordering of Absorption, CIA, '
                'Rayleigh, SimpleClouds, FlatMie, LeeMie, H-: model(), '
                'model(wngrid=sub), model_contrib(), model_full_contrib() (both '
                'also restricted to a sub-range), a source added after '
                'build(), the cache\'s interpolation mode changed under the '
                'living model, the CIA pair list changed through its setter, '
                'hazes switched off (exactly zero) and on, '
                'store_contributions(), parameter writes (incl. abundance -> 0, '
                'x2, invalid vectors); after every evaluating op the product '
                'relations R1-R5 and equality with a fresh model at the same '
                'parameters (R6) are checked; non-trivial = >= 2 contributions '
                'or >= 2 species; distinct = distinct (contribution set, add '
                'order, set of op-kind bigrams)',
        'probes': ['three_or_more_components', 'evaluate_while_invalid',
                   'parts_on_sub_grid', 'source_added_after_build',
                   'interpolation_mode_changed_under_model',
                   'correlated_k_mode',
                   'collision_pairs_changed_after_build',
                   'model_used_after_fault_in_integral'],
        'real': ['TransmissionModel (both path methods), SimpleForwardModel '
                 'model/model_contrib/model_full_contrib/build',
                 'AbsorptionContribution, CIAContribution, RayleighContribution, '
                 'SimpleCloudsContribution, FlatMie, LeeMie, HydrogenIon',
                 'contribute_tau / contribute_cia kernels',
                 'taurex.util.output.store_contributions', 'TaurexChemistry, '
                 'ConstantGas'],
        'stub': ['in-memory opacity and CIA tables'],
        'assumptions': COMMON_ASSUMPTIONS + [
            'transmittances are compared to 1e-11 relative, except in layers '
            'whose full-model row is entirely below exp(-10), where the '
            'licensed cut-off allows exp(-10) absolute',
            'proportionality (R5) uses trace abundances <= 5e-7 and -ln T in '
            '[1e-5, 20], tolerance 2e-4',
            'a share of runs is in correlated-k mode (pickle k-tables on the '
            'scratch store): there the per-molecule product (R2) and '
            'proportionality (R5) of the Absorption source are not demanded '
            '(molecules share the quadrature points) and each component is '
            'recomputed as -ln sum_g w_g exp(-tau_g) from the mixing-ratio '
            'weighted k-coefficients (R7k); composition over sources, '
            'add-order independence, zero abundance and history independence '
            'are demanded as elsewhere',
            'what store_contributions hands to the output file is compared '
            'entry by entry (native/binned spectrum and optical depth of '
            'every source and component) with model_contrib / '
            'model_full_contrib and a fresh binner; the Rayleigh source has '
            'one component per species present anywhere with Rayleigh data',
            'a factor common to all components is invisible to these '
            'relations (C01 ground, not applicable)',
            'nothing is demanded at the moment an exception escapes inside the '
            'swap window, but the next valid evaluation on the same object '
            'must be right again (the harness repairs nothing)',
            'after a source was added to a built model the long-lived list is '
            'in another order than a fresh model\'s: comparisons with fresh '
            'models are then cut-off aware (exp(-10) in saturated layers, '
            '1e-4 on the spectrum)',
        ],
    },
}
