"""C07 — retrieval set-up depends only on current settings; updates touch only
fitted parameters.  Optimizer-history machine (DESIGN §5.3).

case = {config, ops}.  The executor is a pure function of the case and the tree.
"""
import math

import numpy as np

from sim.kernel import Streams, EventLog, Outcome, Violation, H
from sim import models as M

MUTATORS = ['enable_fit', 'disable_fit', 'set_mode', 'set_boundary',
            'set_factor_boundary', 'set_prior', 'enable_derived',
            'disable_derived']

REAL_SHARE = 0.12
_warm = False


def warmup():
    global _warm
    if _warm:
        return
    import taurex.log
    import logging
    logging.getLogger('taurex').setLevel(logging.CRITICAL)
    taurex.log.disableLogging()
    _warm = True


# --------------------------------------------------------------------------
# generation
# --------------------------------------------------------------------------

def _bounds(rng):
    lo = 10 ** rng.uniform(-3, 2)
    hi = lo * 10 ** rng.uniform(0.1, 3)
    r = rng.random()
    if r < 0.06:
        lo = float(rng.randint(1, 9))
        return [lo, lo + rng.randint(1, 90)]      # whole numbers
    if r < 0.08:
        return [hi, lo]          # given in reverse order
    if r < 0.12:
        return [lo, lo]          # degenerate: equal bounds
    return [lo, hi]


def _sbounds(rng):
    """Bounds of a parameter that lives in linear space only: may be
    negative, may touch or straddle zero."""
    r = rng.random()
    if r < 0.3:
        return [0.0, 10 ** rng.uniform(-2, 2)]
    if r < 0.6:
        return [-10 ** rng.uniform(-2, 2), 10 ** rng.uniform(-2, 2)]
    hi = -10 ** rng.uniform(-3, 1)
    return [hi - 10 ** rng.uniform(-2, 2), hi]


def _prior_spec(rng, bounds=None, signed=False, plugin=False):
    if plugin and not signed and rng.random() < 0.12:
        # a plug-in prior written against the public Prior base class
        # (uniform in ln x; its transform is neither of the built-in two)
        lo = rng.uniform(-3, 2)
        return {'kind': 'LnUniform',
                'args': {'bounds': [lo, lo + rng.uniform(0.1, 3)]}}
    if signed:
        if rng.random() < 0.6:
            return {'kind': 'Uniform', 'args': {'bounds': _sbounds(rng)}}
        return {'kind': 'Gaussian', 'args': {'mean': rng.uniform(-5, 5),
                                             'std': rng.uniform(0.01, 2)}}
    kind = rng.choice(['Uniform', 'LogUniform', 'LogUniform', 'Gaussian',
                       'LogGaussian'])
    if kind == 'Uniform':
        return {'kind': kind, 'args': {'bounds': _bounds(rng)}}
    if kind == 'LogUniform':
        if rng.random() < 0.5:
            return {'kind': kind, 'args': {'lin_bounds': _bounds(rng)}}
        lo = rng.uniform(-3, 2)
        return {'kind': kind, 'args': {'bounds': [lo, lo + rng.uniform(0.1, 3)]}}
    if kind == 'Gaussian':
        mean = rng.uniform(1, 10)
        return {'kind': kind, 'args': {'mean': mean,
                                       'std': mean * rng.uniform(0.01, 0.1)}}
    mean = rng.uniform(-2, 2)
    return {'kind': kind, 'args': {'mean': mean, 'std': rng.uniform(0.05, 0.5)}}


def gen_config(rng, kind='toy'):
    cfg = {'kind': kind}
    nm = rng.randint(2, 6) if rng.random() < 0.9 else rng.randint(11, 13)
    no = rng.choice([0, 0, 1, 2])
    mp, op = [], []
    for i in range(nm):
        if rng.random() < 0.2:
            # lives in linear space only: signed bounds, value may be 0
            b = _sbounds(rng)
            v = rng.choice([0.0, b[0], b[0] + rng.random() * (b[1] - b[0])])
            mp.append({'name': 'p%d' % i, 'mode': 'linear',
                       'fit': rng.random() < 0.3, 'bounds': b, 'value': v,
                       'signed': True})
            continue
        b = _bounds(rng)
        mp.append({'name': 'p%d' % i, 'mode': rng.choice(['linear', 'log']),
                   'fit': rng.random() < 0.3, 'bounds': b,
                   'value': b[0] + rng.random() * (b[1] - b[0])})
    for i in range(no):
        b = _bounds(rng)
        op.append({'name': 'q%d' % i, 'mode': rng.choice(['linear', 'log']),
                   'fit': rng.random() < 0.3, 'bounds': b,
                   'value': b[0] + rng.random() * (b[1] - b[0])})
    md, od = [], []
    for i in range(rng.choice([0, 1, 2, 2])):
        k = rng.randint(1, nm)
        md.append({'name': 'dm%d' % i, 'compute': rng.random() < 0.3,
                   'terms': sorted(rng.sample([p['name'] for p in mp], k))})
    if no and rng.random() < 0.6:
        od.append({'name': 'do0', 'compute': rng.random() < 0.3,
                   'terms': [op[0]['name']]})
    cfg.update(mparams=mp, mderived=md, oparams=op, oderived=od, ngrid=6)
    return cfg


def gen_ops(rng, cfg, nops):
    names = [p['name'] for p in cfg['mparams'] + cfg['oparams']
             if p.get('touch', True)]
    dnames = [d['name'] for d in cfg['mderived'] + cfg['oderived']]
    signed = set(p['name'] for p in cfg['mparams'] + cfg['oparams']
                 if p.get('signed'))
    ops = []
    # swarm: per-run op weights
    w = {
        'enable_fit': rng.uniform(0.5, 3), 'disable_fit': rng.uniform(0.2, 2),
        'set_mode': rng.uniform(0.2, 2), 'set_boundary': rng.uniform(0.2, 2),
        'set_factor_boundary': rng.uniform(0, 1),
        'set_prior': rng.uniform(0, 2),
        'enable_derived': rng.uniform(0, 1.5) if dnames else 0,
        'disable_derived': rng.uniform(0, 1.5) if dnames else 0,
        'compile': rng.uniform(0.5, 3), 'update_model': rng.uniform(0.2, 2),
        'direct_write': rng.uniform(0, 1),
        'misuse': rng.choice([0, 0, 0.3, 1.0]),
        'parfile': rng.choice([0, 0.4, 1.0]),
        'update_repeat': rng.choice([0, 0.5, 1.5]),
        'modify_bounds': rng.choice([0, 0.4, 1.0]),
        'inplace_bounds': rng.choice([0, 0.4, 1.0]),
        'prior_set_bounds': rng.choice([0, 0.4, 1.0]),
        'module_compile': rng.choice([0, 0.3, 1.0]),
        'rebuild': rng.choice([0, 0.5, 1.0]) if cfg['kind'] == 'real' else 0,
        'rebuild_without': rng.choice([0, 0.4, 0.8])
        if cfg['kind'] == 'real' and 'SimpleClouds' in
        cfg['model']['contribs'] else 0,
        'via_other': rng.choice([0, 0, 0.5, 1.5]),
    }
    kinds = sorted(w)
    weights = [w[k] for k in kinds]
    for _ in range(nops):
        k = rng.choices(kinds, weights)[0]
        if k in ('enable_fit', 'disable_fit'):
            ops.append([k, rng.choice(names)])
        elif k == 'set_mode':
            n = rng.choice(names)
            ops.append([k, n, rng.choice(['linear', 'Linear']) if n in signed
                        else rng.choice(['linear', 'log', 'LOG', 'Linear',
                                         'log'])])
        elif k == 'set_boundary':
            n = rng.choice(names)
            ops.append([k, n, _sbounds(rng) if n in signed else _bounds(rng)])
        elif k == 'set_factor_boundary':
            f0 = rng.uniform(0.1, 0.9)
            n = rng.choice(names)
            # (for a parameter whose value is negative at that moment the
            # factors give the pair in descending order, on its side of zero)
            ops.append([k, n, [f0, rng.uniform(1.1, 10)]])
        elif k == 'set_prior':
            n = rng.choice(names)
            ops.append([k, n, _prior_spec(rng, signed=n in signed,
                                          plugin=True)])
        elif k in ('enable_derived', 'disable_derived'):
            ops.append([k, rng.choice(dnames)])
        elif k == 'prior_set_bounds':
            # the limits of a prior object the optimizer already holds are
            # changed through the prior's own set_bounds (its own space)
            n = rng.choice(names)
            lo = rng.uniform(-3, 2)
            ops.append([k, n, [lo, lo + rng.uniform(0.1, 3)]])
        elif k == 'compile':
            ops.append(['compile'])
        elif k == 'update_model':
            ops.append([k, [rng.uniform(0.02, 0.98) for _ in range(8)]])
        elif k == 'direct_write':
            n = rng.choice(names)
            ops.append([k, n, rng.choice([0.0, -10 ** rng.uniform(-3, 2),
                                          10 ** rng.uniform(-3, 2)])
                        if n in signed else 10 ** rng.uniform(-3, 3)])
        elif k == 'misuse':
            ops.append([k, rng.choice(MUTATORS + ['bad_mode', 'wrong_len_long',
                                                  'wrong_len_short',
                                                  'parfile_fit',
                                                  'parfile_derive'])])
        elif k == 'update_repeat':
            # the vector written last is written again (after whatever
            # happened to the parameters in between)
            ops.append([k])
        elif k in ('module_compile', 'rebuild', 'rebuild_without'):
            ops.append([k])
        elif k in ('modify_bounds', 'inplace_bounds'):
            # the component-level API (Fittable.modify_bounds) instead of the
            # optimizer's; or: the caller changes, in place, the very list
            # it handed to set_boundary earlier (TauREx keeps that object)
            n = rng.choice(names)
            ops.append([k, n, _sbounds(rng) if n in signed else _bounds(rng)]
                       + ([rng.random() < 0.5] if k == 'inplace_bounds'
                          else []))
        elif k == 'via_other':
            # a second optimizer attached to the same model and observation
            # changes a setting (the tables are theirs, not the optimizer's)
            n = rng.choice(names)
            sub = rng.choice(['enable_fit', 'disable_fit', 'set_mode',
                              'set_boundary'])
            if sub in ('enable_fit', 'disable_fit'):
                ops.append([k, sub, n])
            elif sub == 'set_mode':
                ops.append([k, sub, n, 'linear' if n in signed
                            else rng.choice(['linear', 'log'])])
            else:
                ops.append([k, sub, n, _sbounds(rng) if n in signed
                            else _bounds(rng)])
        elif k == 'parfile':
            # settings arrive through an input file's [Fitting]/[Derive]
            # sections (ParameterParser.setup_optimizer)
            ents = []
            for n in rng.sample(names, rng.randint(1, len(names))):
                e = {'fit': rng.random() < 0.6}
                r = rng.random()
                sg = n in signed
                if r < 0.3:
                    e['bounds'] = _sbounds(rng) if sg else _bounds(rng)
                elif r < 0.45 and not sg:
                    e['factor'] = [rng.uniform(0.1, 0.9), rng.uniform(1.1, 10)]
                if rng.random() < 0.4:
                    e['mode'] = rng.choice(['linear', 'Linear']) if sg else \
                        rng.choice(['linear', 'log', 'LOG', 'Linear'])
                if rng.random() < 0.3:
                    e['prior'] = _prior_spec(rng, signed=sg)
                ents.append([n, e])
            dents = [[n, rng.random() < 0.5]
                     for n in rng.sample(dnames, rng.randint(0, len(dnames)))]
            ops.append([k, ents, dents])
    return ops


def generate(run_seed, tier):
    st = Streams(run_seed)
    crng = st('config')
    kind = 'real' if crng.random() < REAL_SHARE else 'toy'
    if kind == 'real':
        from checks import c07_real
        cfg = c07_real.gen_config(crng)
    else:
        cfg = gen_config(crng)
    orng = st('ops')
    hi = 40 if tier == 'quick' else 120
    nops = orng.randint(3, hi) if orng.random() < 0.8 else orng.randint(1, 8)
    return {'config': cfg, 'ops': gen_ops(orng, cfg, nops)}


# --------------------------------------------------------------------------
# reference model
# --------------------------------------------------------------------------

class Ref(object):
    def __init__(self, cfg):
        self.order = []
        self.params = {}
        self.values = {}
        for owner, plist in (('m', cfg['mparams']), ('o', cfg['oparams'])):
            for p in plist:
                self.order.append(p['name'])
                self.params[p['name']] = {'owner': owner, 'fit': p['fit'],
                                          'mode': p['mode'],
                                          'bounds': list(p['bounds']),
                                          'user_prior': None}
                self.values[p['name']] = p['value']
        self.dorder = []
        self.derived = {}
        for owner, dlist in (('m', cfg['mderived']), ('o', cfg['oderived'])):
            for d in dlist:
                self.dorder.append(d['name'])
                self.derived[d['name']] = {'owner': owner,
                                           'compute': d['compute'],
                                           'terms': d['terms']}
        self.compiled = None
        self.ncompiles = 0

    def spec(self, name):
        p = self.params[name]
        return p['user_prior'] or M.default_prior_spec(p['mode'], p['bounds'])

    def state_key(self):
        return tuple((n, p['fit'], p['mode'], tuple(p['bounds']),
                      (p['user_prior'] or {}).get('kind'))
                     for n, p in sorted(self.params.items())) + \
            tuple((n, d['compute']) for n, d in sorted(self.derived.items()))

    def compile(self):
        self.compiled = []
        for n in self.order:
            if self.params[n]['fit']:
                sp = self.spec(n)
                self.compiled.append({'name': n, 'spec': sp,
                                      'is_log': M.ref_prior_is_log(sp),
                                      'user': self.params[n]['user_prior']
                                      is not None,
                                      'bounds': list(self.params[n]['bounds'])})
        self.compiled_derived = [n for n in self.dorder
                                 if self.derived[n]['compute']]
        self.ncompiles += 1

    def derived_value(self, name):
        return sum(self.values[t] for t in self.derived[name]['terms'])


# --------------------------------------------------------------------------
# execution
# --------------------------------------------------------------------------

def prior_text(spec):
    """The documented text form of a prior, as written in an input file."""
    a = spec['args']
    k = spec['kind']
    if 'lin_bounds' in a:
        return '%s(lin_bounds=(%r, %r))' % (k, a['lin_bounds'][0],
                                            a['lin_bounds'][1])
    if 'bounds' in a:
        return '%s(bounds=(%r, %r))' % (k, a['bounds'][0], a['bounds'][1])
    return '%s(mean=%r, std=%r)' % (k, a['mean'], a['std'])


def parfile_text(ents, dents):
    lines = ['[Fitting]']
    for n, e in ents:
        lines.append('%s:fit = %s' % (n, e['fit']))
        if 'factor' in e:
            lines.append('%s:factor = %r, %r' % (n, e['factor'][0],
                                                 e['factor'][1]))
        if 'bounds' in e:
            lines.append('%s:bounds = %r, %r' % (n, e['bounds'][0],
                                                 e['bounds'][1]))
        if 'mode' in e:
            lines.append('%s:mode = %s' % (n, e['mode']))
        if 'prior' in e:
            lines.append('%s:prior = "%s"' % (n, prior_text(e['prior'])))
    lines.append('[Derive]')
    for n, comp in dents:
        lines.append('%s:compute = %s' % (n, comp))
    return '\n'.join(lines) + '\n'


def _close(a, b, rel=1e-12):
    a = float(a)
    b = float(b)
    if a == b:
        return True
    if not (math.isfinite(a) and math.isfinite(b)):
        return False
    return abs(a - b) <= rel * max(abs(a), abs(b))


def _build(cfg):
    from taurex.optimizer import Optimizer
    if cfg['kind'] == 'real':
        from checks import c07_real
        model, obs = c07_real.build(cfg)
    else:
        model, obs = M.build_toy(cfg)
    opt = Optimizer('verif', observed=obs, model=model)
    return model, obs, opt


def _owner_obj(ref, name, model, obs):
    return model if ref.params[name]['owner'] == 'm' else obs


def _get(ref, name, model, obs):
    return _owner_obj(ref, name, model, obs).fittingParameters[name][2]()


def _set(ref, name, model, obs, value):
    return _owner_obj(ref, name, model, obs).fittingParameters[name][3](value)


def _tables(ref, model, obs):
    out = []
    for n in ref.order:
        t = _owner_obj(ref, n, model, obs).fittingParameters[n]
        out.append((n, t[4], bool(t[5]), tuple(float(x) for x in t[6]),
                    repr(float(t[2]()))))
    for n in ref.dorder:
        o = model if ref.derived[n]['owner'] == 'm' else obs
        out.append((n, bool(o.derivedParameters[n][3])))
    return out


class Stop(Exception):
    pass


def execute(case, keep_text=False):
    warmup()
    cfg = case['config']
    ops = case['ops']
    out = Outcome()
    log = EventLog(keep_text)
    if cfg['kind'] == 'real':
        from checks import c07_real
        c07_real.install(cfg)
    model, obs, opt = _build(cfg)
    ref = Ref(cfg)
    def tables_complete(step):
        """The tables a built model offers are the union of what each of its
        components - and the model object itself - declares (an independent
        walk over the components, not the model's own collector)."""
        comps = [model, model.planet, model.star, model.pressure,
                 model.temperature, model.chemistry] + \
            list(model.contribution_list)
        for what, meth, have in (
                ('fit', 'fitting_parameters', model.fittingParameters),
                ('derived', 'derived_parameters', model.derivedParameters)):
            want = set()
            for c_ in comps:
                if c_ is not None:
                    want |= set(getattr(c_, meth)().keys())
            if set(have.keys()) != want:
                out.violations.append(Violation(
                    'views', 'model-tables:' + what,
                    '%s names offered by the built model differ from those '
                    'declared by its components in %s (declared: %s)'
                    % (what, sorted(set(have.keys()) ^ want), sorted(want)),
                    step))
                return False
        return True

    if cfg['kind'] == 'real':
        out.bump('probes', 'real_model_run')
        c07_real.sync_ref_from_model(ref, model, obs)
        if not tables_complete(-1):
            out.digest = log.digest()
            return out
        msg = c07_real.defaults_as_declared(model)
        if msg:
            out.violations.append(Violation(
                'views', 'model-tables:defaults',
                'a freshly built model offers ' + msg, -1))
            out.digest = log.digest()
            return out
    sig = []
    last_vec = [None]
    other = [None]
    comp_bounds = {}    # bounds changed on a component (seen at next build)
    stale = [False]     # model rebuilt since the last compile: what the
    #                     optimizer compiled refers to tables that are gone
    dirty_since_compile = False
    held_bounds = {}
    held_priors = {}
    fault_kinds = set()
    direct_since_compile = False

    def viol(cls, key, detail, step):
        out.violations.append(Violation(cls, key, detail, step))

    def real_call(step, opname, fn, *a):
        """Call real code where the reference says it must succeed."""
        try:
            return fn(*a)
        except Exception as e:
            viol('unexpected-exception', '%s:%s' % (opname, type(e).__name__),
                 '%s raised %r' % (opname, e), step)
            raise Stop()

    def check_values(step, where, rel=0.0):
        for n in ref.order:
            got = _get(ref, n, model, obs)
            want = ref.values[n]
            ok = (got == want) if rel == 0.0 else _close(got, want, rel)
            if not ok:
                viol('value-changed', where,
                     'parameter %s is %r, reference %r' % (n, got, want), step)
                raise Stop()

    def check_views(step):
        bad = False
        exp = ref.compiled
        names = real_call(step, 'fit_names', lambda: list(opt.fit_names))
        exp_names = [('log_' + c['name']) if c['is_log'] is True else c['name']
                     for c in exp]
        if names != exp_names:
            viol('views', 'fit_names', 'got %s want %s' % (names, exp_names),
                 step)
            raise Stop()
        vals = real_call(step, 'fit_values', lambda: list(opt.fit_values))
        for c, v in zip(exp, vals):
            want = ref.values[c['name']]
            want = math.log10(want) if c['is_log'] is True else want
            if not _close(v, want):
                kind = 'user' if c['user'] else 'default'
                viol('views', 'fit_values:%s-prior' % kind,
                     '%s: reported %r, value in the space of its name/prior is '
                     '%r' % (c['name'], v, want), step)
                bad = True
        pri = list(opt.fitting_priors)
        if len(pri) != len(exp):
            viol('views', 'fitting_priors:len', '%d vs %d' % (len(pri), len(exp)),
                 step)
            raise Stop()
        for c, p in zip(exp, pri):
            kind = 'user' if c['user'] else 'default'
            if p.__class__.__name__ != c['spec']['kind']:
                viol('views', 'prior-class:%s' % kind,
                     '%s: prior %s, settings imply %s'
                     % (c['name'], p.__class__.__name__, c['spec']['kind']),
                     step)
                bad = True
                continue
            pb = real_call(step, 'prior.boundaries', p.boundaries)
            rb = M.ref_prior_bounds(c['spec'])
            if not (_close(pb[0], rb[0], 1e-9) and _close(pb[1], rb[1], 1e-9)):
                viol('views', 'prior-bounds:%s' % kind,
                     '%s: prior boundaries %s, settings imply %s'
                     % (c['name'], pb, rb), step)
                bad = True
                continue
            # ... and what the samplers would draw from it is the same prior
            # (limits and transform of one object must not drift apart)
            if rb[0] == rb[1]:
                continue      # (a degenerate prior has no transform to speak of)
            for u_ in (0.25, 0.75):
                ps = float(real_call(step, 'prior.sample', p.sample, u_))
                rs = float(M.ref_prior_sample(c['spec'], u_))
                if not _close(ps, rs, 1e-9):
                    viol('views', 'prior-sample:%s' % kind,
                         '%s: prior maps u=%r to %r, settings imply %r'
                         % (c['name'], u_, ps, rs), step)
                    bad = True
                    break
        fb = real_call(step, 'fit_boundaries', lambda: list(opt.fit_boundaries))
        for c, b in zip(exp, fb):
            lo, hi = c['bounds']
            if c['is_log'] is True:
                lo, hi = math.log10(lo), math.log10(hi)
            ok = _close(b[0], lo) and _close(b[1], hi)
            if not ok and c['user']:
                rb = M.ref_prior_bounds(c['spec'])
                ok = _close(b[0], rb[0], 1e-9) and _close(b[1], rb[1], 1e-9)
            if not ok:
                kind = 'user' if c['user'] else 'default'
                viol('views', 'fit_boundaries:%s-prior' % kind,
                     '%s: reported %s, bounds in the space of its name/prior '
                     'are %s' % (c['name'], tuple(b), (lo, hi)), step)
                bad = True
        dn = list(opt.derived_names)
        if dn != ref.compiled_derived:
            viol('views', 'derived_names', 'got %s want %s'
                 % (dn, ref.compiled_derived), step)
            bad = True
        else:
            if cfg['kind'] == 'toy':
                dv = real_call(step, 'derived_values',
                               lambda: list(opt.derived_values))
                for n, v in zip(dn, dv):
                    if not _close(v, ref.derived_value(n)):
                        viol('views', 'derived_values', '%s: %r vs %r'
                             % (n, v, ref.derived_value(n)), step)
                        bad = True
        if bad:
            raise Stop()
        log.add('opt', 'views', [names, vals, [list(b) for b in fb], dn])
        # H1: history independence against a fresh twin with the net settings
        m2, o2, opt2 = _build(cfg)
        for n in ref.order:
            p = ref.params[n]
            (opt2.enable_fit if p['fit'] else opt2.disable_fit)(n)
            opt2.set_mode(n, p['mode'])
            opt2.set_boundary(n, list(p['bounds']))
            if p['user_prior']:
                opt2.set_prior(n, M.make_prior(p['user_prior']))
            _set(ref, n, m2, o2, ref.values[n])
        for n in ref.dorder:
            if ref.derived[n]['compute']:
                opt2.enable_derived(n)
            elif ref.derived[n]['owner'] == 'm' and \
                    m2.derivedParameters[n][3]:
                m2.derivedParameters[n] = m2.derivedParameters[n][:3] + (False,)
            elif ref.derived[n]['owner'] == 'o' and \
                    o2.derivedParameters[n][3]:
                o2.derivedParameters[n] = o2.derivedParameters[n][:3] + (False,)
        opt2.compile_params()
        twin = {'fit_names': list(opt2.fit_names),
                'derived_names': list(opt2.derived_names),
                'prior_classes': [p.__class__.__name__
                                  for p in opt2.fitting_priors]}
        mine = {'fit_names': names, 'derived_names': dn,
                'prior_classes': [p.__class__.__name__ for p in pri]}
        for k in sorted(twin):
            if twin[k] != mine[k]:
                viol('history-dependence', k, 'after history %s, fresh twin %s'
                     % (mine[k], twin[k]), step)
                raise Stop()
        for k, a, b in (('fit_values', vals, list(opt2.fit_values)),
                        ('fit_boundaries', [x for t in fb for x in t],
                         [x for t in opt2.fit_boundaries for x in t]),
                        ('prior_boundaries',
                         [x for p in pri for x in p.boundaries()],
                         [x for p in opt2.fitting_priors
                          for x in p.boundaries()])):
            if len(a) != len(b) or not all(_close(x, y, 1e-9)
                                           for x, y in zip(a, b)):
                viol('history-dependence', k, 'after history %s, fresh twin %s'
                     % (a, b), step)
                raise Stop()
        # H2: writing the reported values back changes nothing (the relation
        # presupposes the two built-in spaces: a plug-in prior reports the
        # linear value under a linear name and transforms it on the way in)
        if any(c['is_log'] == 'ln' for c in exp):
            out.bump('probes', 'plugin_prior_compiled')
        else:
            real_call(step, 'update_model(fit_values)', opt.update_model,
                      vals)
            check_values(step, 'writeback', rel=1e-12)
        for n in ref.order:      # re-synchronise exactly
            _set(ref, n, model, obs, ref.values[n])
            ref.values[n] = _get(ref, n, model, obs)

    try:
        for step, op in enumerate(ops):
            k = op[0]
            out.bump('steps', 'ops')
            log.add('drv', 'op', op)
            gone = None
            if k in ('enable_fit', 'disable_fit', 'set_mode', 'set_boundary',
                     'set_factor_boundary', 'set_prior', 'direct_write',
                     'modify_bounds', 'inplace_bounds', 'prior_set_bounds') \
                    and op[1] not in ref.params:
                gone = op[1]
            elif k == 'via_other' and op[2] not in ref.params:
                gone = op[2]
            if gone is not None:
                # a parameter the model no longer has (its component was
                # removed before a rebuild): naming it is an error now
                if k in ('direct_write', 'via_other', 'modify_bounds',
                         'inplace_bounds', 'prior_set_bounds'):
                    continue
                raised = False
                try:
                    if k == 'set_prior':
                        opt.set_prior(gone, M.make_prior(op[2]))
                    elif k in ('enable_fit', 'disable_fit'):
                        getattr(opt, k)(gone)
                    else:
                        getattr(opt, k)(gone, op[2])
                except Exception:
                    raised = True
                out.bump('probes', 'removed_parameter_named')
                if not raised:
                    viol('misuse-accepted', k + ':removed-parameter',
                         '%s(%r) was accepted although the model has no such '
                         'parameter any more' % (k, gone), step)
                    raise Stop()
                continue
            if k == 'parfile':
                op = [op[0], [e for e in op[1] if e[0] in ref.params], op[2]]
            if k in ('enable_fit', 'disable_fit'):
                real_call(step, k, getattr(opt, k), op[1])
                ref.params[op[1]]['fit'] = (k == 'enable_fit')
                dirty_since_compile = True
            elif k == 'set_mode':
                real_call(step, k, opt.set_mode, op[1], op[2])
                ref.params[op[1]]['mode'] = op[2].lower()
                dirty_since_compile = True
            elif k == 'set_boundary':
                b = list(op[2])
                if all(float(x).is_integer() for x in b):
                    b = [int(x) for x in b]       # integers are numbers too
                real_call(step, k, opt.set_boundary, op[1], b)
                held_bounds[op[1]] = b
                ref.params[op[1]]['bounds'] = list(op[2])
                dirty_since_compile = True
            elif k == 'inplace_bounds':
                b = held_bounds.get(op[1])
                tab = (model if op[1] in model.fittingParameters
                       else obs).fittingParameters
                if b is None or tab[op[1]][6] is not b:
                    continue        # TauREx holds no list of the caller's
                b[:] = list(op[2])
                out.bump('probes', 'bounds_list_changed_in_place')
                if len(op) > 3 and op[3]:   # and hands it over again
                    real_call(step, k, opt.set_boundary, op[1], b)
                ref.params[op[1]]['bounds'] = list(op[2])
                dirty_since_compile = True
            elif k == 'set_factor_boundary':
                real_call(step, k, opt.set_factor_boundary, op[1], list(op[2]))
                v = ref.values[op[1]]
                ref.params[op[1]]['bounds'] = [op[2][0] * v, op[2][1] * v]
                dirty_since_compile = True
            elif k == 'prior_set_bounds':
                pobj, pspec = held_priors.get(op[1], (None, None))
                spec0 = ref.params[op[1]].get('user_prior')
                if pobj is None or not spec0 or spec0 is not pspec or \
                        spec0['kind'] not in ('Uniform', 'LogUniform'):
                    continue       # (the prior in force is not that object)
                nb = list(op[2])
                if spec0['kind'] == 'Uniform' and not any(
                        p_.get('signed') for p_ in cfg['mparams'] +
                        cfg['oparams'] if p_['name'] == op[1]):
                    # a positive linear range (only linear-only parameters
                    # may take negative values)
                    nb = [10 ** x for x in nb]
                real_call(step, k, pobj.set_bounds, list(nb))
                ref.params[op[1]]['user_prior'] = {
                    'kind': spec0['kind'], 'args': {'bounds': list(nb)}}
                held_priors[op[1]] = (pobj, ref.params[op[1]]['user_prior'])
                out.bump('probes', 'prior_limits_changed_on_live_object')
                dirty_since_compile = True
            elif k == 'set_prior':
                held_priors[op[1]] = (M.make_prior(op[2]), op[2])
                real_call(step, k, opt.set_prior, op[1],
                          held_priors[op[1]][0])
                ref.params[op[1]]['user_prior'] = op[2]
                dirty_since_compile = True
                if M.ref_prior_is_log(op[2]) != \
                        (ref.params[op[1]]['mode'] == 'log'):
                    out.bump('probes', 'mixed_space_prior')
            elif k in ('enable_derived', 'disable_derived'):
                if k == 'disable_derived' and ref.derived[op[1]]['compute']:
                    out.bump('probes', 'derived_disabled_after_enable')
                real_call(step, k, getattr(opt, k), op[1])
                ref.derived[op[1]]['compute'] = (k == 'enable_derived')
                dirty_since_compile = True
            elif k == 'compile':
                if ref.ncompiles and dirty_since_compile:
                    out.bump('probes', 'recompile_after_change')
                real_call(step, k, opt.compile_params)
                ref.compile()
                stale[0] = False
                out.bump('steps', 'compiles')
                sig.append((H(ref.state_key()), ref.ncompiles > 1))
                if any(ref.params[c['name']]['owner'] == 'o'
                       for c in ref.compiled):
                    out.bump('probes', 'obs_param_fitted')
                dirty_since_compile = False
                direct_since_compile = False
                if any(c['bounds'][0] <= 0 or ref.values[c['name']] <= 0
                       for c in ref.compiled):
                    out.bump('probes', 'nonpositive_param_fitted')
                check_views(step)
            elif k == 'update_model':
                if stale[0]:
                    continue      # unspecified until the next compile
                if ref.compiled is None:
                    vec = []
                    real_call(step, k, opt.update_model, vec)
                    check_values(step, 'update_model')
                    continue
                vec = []
                for c, u in zip(ref.compiled, op[1] * 4):
                    vec.append(M.ref_prior_sample(c['spec'], u))
                if direct_since_compile:
                    out.bump('probes', 'update_after_direct_write')
                # what samplers hand over: a list, a tuple, an ndarray, numpy
                # scalars (chosen from the vector itself: no extra draw)
                how = int(abs(sum(op[1])) * 1e6) % 4
                arg = [vec, tuple(vec), np.array(vec, dtype=float),
                       [np.float64(x) for x in vec]][how]
                real_call(step, k, opt.update_model, arg)
                if [float(x) for x in arg] != [float(x) for x in vec]:
                    viol('argument-mutated', 'update_model', 'the vector '
                         'handed to update_model was changed: %r -> %r'
                         % (list(vec), [float(x) for x in arg]), step)
                    raise Stop()
                last_vec[0] = (ref.ncompiles, list(vec))
                out.bump('steps', 'updates')
                fitted = set()
                for c, v in zip(ref.compiled, vec):
                    want = M.ref_to_linear(c['is_log'], v)
                    got = _get(ref, c['name'], model, obs)
                    if not _close(got, want, 1e-13):
                        viol('update-wrong-value',
                             'log' if c['is_log'] else 'linear',
                             '%s: wrote %r (prior space), parameter is %r, '
                             'prior-transformed value is %r'
                             % (c['name'], v, got, want), step)
                        raise Stop()
                    ref.values[c['name']] = got
                    fitted.add(c['name'])
                check_values(step, 'update_model')
                log.add('opt', 'update', vec)
            elif k == 'modify_bounds':
                n = op[1]
                if cfg['kind'] == 'real':
                    # on the component that owns the parameter: the model's
                    # collected table keeps what it has until the next build()
                    # (gases before the chemistry, which re-exports their
                    # parameters)
                    comps = list(getattr(model.chemistry, '_gases', [])) + \
                        [model.planet, model.star, model.pressure,
                         model.temperature, model.chemistry] + \
                        list(model.contribution_list)
                    own = [c_ for c_ in comps if c_ is not None
                           and n in c_.fitting_parameters()]
                    if not own:
                        continue
                    real_call(step, k, own[0].modify_bounds, n, list(op[2]))
                    comp_bounds[n] = list(op[2])
                else:
                    real_call(step, k, _owner_obj(ref, n, model,
                                                  obs).modify_bounds,
                              n, list(op[2]))
                    ref.params[n]['bounds'] = list(op[2])
                out.bump('probes', 'bounds_changed_on_component')
                dirty_since_compile = True
            elif k == 'module_compile':
                # the public module-level function, called the way a script
                # may: no prior table handed in
                from taurex.optimizer import optimizer as omod
                for owner, obj in (('m', model), ('o', obs)):
                    got = real_call(step, k, omod.compile_params,
                                    obj.fittingParameters,
                                    obj.derivedParameters)
                    want = [n for n in ref.order
                            if ref.params[n]['owner'] == owner and
                            ref.params[n]['fit']]
                    names_ = [t[0] for t in got[0]]
                    if names_ != want:
                        viol('views', 'module-compile:names', 'got %s want %s'
                             % (names_, want), step)
                        raise Stop()
                    for n, pr in zip(want, got[1]):
                        sp = M.default_prior_spec(ref.params[n]['mode'],
                                                  ref.params[n]['bounds'])
                        pb = pr.boundaries()
                        rb = M.ref_prior_bounds(sp)
                        if pr.__class__.__name__ != sp['kind'] or not (
                                _close(pb[0], rb[0], 1e-9) and
                                _close(pb[1], rb[1], 1e-9)):
                            viol('views', 'module-compile:prior',
                                 '%s: %s%s, current mode/bounds imply %s%s'
                                 % (n, pr.__class__.__name__, pb, sp['kind'],
                                    rb), step)
                            raise Stop()
                out.bump('probes', 'module_level_compile')
            elif k == 'rebuild':
                if cfg['kind'] != 'real':
                    continue
                mols_ = [m_['name'] for m_ in cfg['model']['molecules']]
                if sum(ref.values[m_] for m_ in mols_) > 0.9:
                    continue        # (an invalid atmosphere cannot be built)
                # build() again: the model re-collects its tables from its
                # components, i.e. model-owned settings return to the defaults
                # (values and the optimizer's user priors stay)
                real_call(step, k, model.build)
                for p0 in cfg['mparams']:
                    if p0['name'] not in ref.params:
                        continue
                    pr = ref.params[p0['name']]
                    pr['fit'] = p0['fit']
                    pr['mode'] = p0['mode']
                    pr['bounds'] = list(comp_bounds.get(p0['name'],
                                                        p0['bounds']))
                for d0 in cfg['mderived']:
                    ref.derived[d0['name']]['compute'] = d0['compute']
                out.bump('probes', 'model_rebuilt')
                if not tables_complete(step):
                    raise Stop()
                stale[0] = True
                dirty_since_compile = True
            elif k == 'rebuild_without':
                if cfg['kind'] != 'real' or 'clouds_pressure' not in ref.params:
                    continue
                mols_ = [m_['name'] for m_ in cfg['model']['molecules']]
                if sum(ref.values[m_] for m_ in mols_) > 0.9:
                    continue
                # the cloud deck is taken out of the model, which is built
                # again: its parameter is gone, the rest is back at defaults
                model.contribution_list[:] = [
                    c_ for c_ in model.contribution_list
                    if type(c_).__name__ != 'SimpleCloudsContribution']
                real_call(step, k, model.build)
                ref.order.remove('clouds_pressure')
                del ref.params['clouds_pressure']
                del ref.values['clouds_pressure']
                for p0 in cfg['mparams']:
                    if p0['name'] in ref.params:
                        pr = ref.params[p0['name']]
                        pr['fit'] = p0['fit']
                        pr['mode'] = p0['mode']
                        pr['bounds'] = list(comp_bounds.get(p0['name'],
                                                            p0['bounds']))
                for d0 in cfg['mderived']:
                    ref.derived[d0['name']]['compute'] = d0['compute']
                if 'clouds_pressure' in model.fittingParameters:
                    viol('views', 'rebuild:removed-parameter-still-listed',
                         'clouds_pressure is still in the model\'s table '
                         'after the cloud deck was removed and the model '
                         'rebuilt', step)
                    raise Stop()
                out.bump('probes', 'component_removed_and_rebuilt')
                stale[0] = True
                dirty_since_compile = True
            elif k == 'update_repeat':
                if last_vec[0] is None or last_vec[0][0] != ref.ncompiles \
                        or ref.compiled is None or stale[0]:
                    continue
                vec = last_vec[0][1]
                real_call(step, k, opt.update_model, vec)
                out.bump('probes', 'same_vector_written_again')
                for c, v in zip(ref.compiled, vec):
                    want = M.ref_to_linear(c['is_log'], v)
                    got = _get(ref, c['name'], model, obs)
                    if not _close(got, want, 1e-13):
                        viol('update-wrong-value', 'repeat',
                             '%s: the same vector written again, parameter is '
                             '%r, prior-transformed value is %r'
                             % (c['name'], got, want), step)
                        raise Stop()
                    ref.values[c['name']] = got
                check_values(step, 'update_repeat')
            elif k == 'via_other':
                if other[0] is None:
                    from taurex.optimizer import Optimizer
                    other[0] = Optimizer('verif-2', observed=obs, model=model)
                sub, n = op[1], op[2]
                if sub in ('enable_fit', 'disable_fit'):
                    real_call(step, k, getattr(other[0], sub), n)
                    ref.params[n]['fit'] = (sub == 'enable_fit')
                elif sub == 'set_mode':
                    real_call(step, k, other[0].set_mode, n, op[3])
                    ref.params[n]['mode'] = op[3].lower()
                else:
                    real_call(step, k, other[0].set_boundary, n, list(op[3]))
                    ref.params[n]['bounds'] = list(op[3])
                out.bump('probes', 'setting_changed_by_second_optimizer')
                dirty_since_compile = True
            elif k == 'direct_write':
                _set(ref, op[1], model, obs, op[2])
                got = _get(ref, op[1], model, obs)
                if not _close(got, op[2], 1e-12):
                    viol('value-changed', 'direct_write', '%s set to %r reads '
                         'back %r' % (op[1], op[2], got), step)
                    raise Stop()
                ref.values[op[1]] = got
                direct_since_compile = True
            elif k == 'parfile':
                import os
                from taurex.parameter import ParameterParser
                sdir = os.environ.get('VERIF_RUN_SCRATCH', '/dev/shm')
                fn = os.path.join(sdir, 'c07-%d.par' % os.getpid())
                with open(fn, 'w') as fh:
                    fh.write(parfile_text(op[1], op[2]))
                try:
                    pp = ParameterParser()
                    real_call(step, 'parfile:read', pp.read, fn)
                    real_call(step, 'parfile:setup_optimizer',
                              pp.setup_optimizer, opt)
                finally:
                    os.remove(fn)
                for n, e in op[1]:
                    pr = ref.params[n]
                    pr['fit'] = bool(e['fit'])
                    if 'factor' in e:
                        v = ref.values[n]
                        pr['bounds'] = [e['factor'][0] * v, e['factor'][1] * v]
                    if 'bounds' in e:
                        pr['bounds'] = list(e['bounds'])
                    if 'mode' in e:
                        pr['mode'] = e['mode'].lower()
                    if 'prior' in e:
                        pr['user_prior'] = e['prior']
                for n, comp in op[2]:
                    ref.derived[n]['compute'] = bool(comp)
                out.bump('probes', 'settings_from_input_file')
                dirty_since_compile = True
            elif k == 'misuse':
                what = op[1]
                before = _tables(ref, model, obs)
                raised = False
                try:
                    if what == 'bad_mode':
                        opt.set_mode(ref.order[0], 'cubic')
                    elif what == 'wrong_len_long':
                        n = len(opt.fitting_parameters)
                        opt.update_model([1.0] * (n + 1))
                    elif what == 'wrong_len_short':
                        n = len(opt.fitting_parameters)
                        if n == 0:
                            raised = True
                        else:
                            opt.update_model([1.0] * (n - 1))
                    elif what in ('enable_fit', 'disable_fit',
                                  'enable_derived', 'disable_derived'):
                        getattr(opt, what)('nope')
                    elif what == 'set_mode':
                        opt.set_mode('nope', 'log')
                    elif what == 'set_boundary':
                        opt.set_boundary('nope', [1.0, 2.0])
                    elif what == 'set_factor_boundary':
                        opt.set_factor_boundary('nope', [0.5, 2.0])
                    elif what == 'set_prior':
                        opt.set_prior('nope', M.make_prior(
                            {'kind': 'Uniform', 'args': {'bounds': [1, 2]}}))
                    elif what in ('parfile_fit', 'parfile_derive'):
                        # an input file naming an unknown parameter
                        import os
                        from taurex.parameter import ParameterParser
                        fn = os.path.join(os.environ.get(
                            'VERIF_RUN_SCRATCH', '/dev/shm'),
                            'c07-%d.par' % os.getpid())
                        with open(fn, 'w') as fh:
                            fh.write(parfile_text(
                                [['nope', {'fit': True}]], [])
                                if what == 'parfile_fit' else
                                parfile_text([], [['nope', True]]))
                        try:
                            pp = ParameterParser()
                            pp.read(fn)
                            pp.setup_optimizer(opt)
                        finally:
                            os.remove(fn)
                except Exception:
                    raised = True
                out.bump('faults', 'misuse:' + what)
                out.bump('probes', 'misuse_fired')
                fault_kinds.add(what)
                if not raised:
                    viol('misuse-accepted', what,
                         'misuse %s did not raise' % what, step)
                    raise Stop()
                after = _tables(ref, model, obs)
                if before != after:
                    viol('misuse-changed-state', what,
                         'tables differ after rejected %s' % what, step)
                    raise Stop()
            else:
                raise ValueError('unknown op %r' % (op,))
        # final compile: the sequence always ends in a compilation
        if ref.ncompiles and dirty_since_compile:
            out.bump('probes', 'recompile_after_change')
        real_call(len(ops), 'compile', opt.compile_params)
        ref.compile()
        out.bump('steps', 'compiles')
        sig.append((H(ref.state_key()), ref.ncompiles > 1))
        check_views(len(ops))
    except Stop:
        pass
    out.digest = log.digest()
    out.signature = '%x' % H(tuple(sig), tuple(sorted(fault_kinds)))
    changes = len(set(s[0] for s in sig))
    out.nontrivial = (ref.ncompiles >= 2 and changes >= 2) or bool(fault_kinds)
    return out


def simplify(case):
    """Config/argument simplifications tried after ddmin."""
    cfg = case['config']
    if cfg['kind'] != 'toy':
        return
    used = set()
    for op in case['ops']:
        if len(op) > 1 and isinstance(op[1], str):
            used.add(op[1])
    # drop unused derived / params (keep at least one model param)
    for key in ('mderived', 'oderived'):
        for i, d in enumerate(cfg[key]):
            if d['name'] not in used:
                c = _copy(case)
                del c['config'][key][i]
                yield c
    for key in ('oparams', 'mparams'):
        for i, p in enumerate(cfg[key]):
            if p['name'] in used:
                continue
            if key == 'mparams' and len(cfg[key]) <= 1:
                continue
            if any(p['name'] in d['terms']
                   for d in cfg['mderived'] + cfg['oderived']):
                continue
            c = _copy(case)
            del c['config'][key][i]
            yield c
    # default flags off
    for key in ('mparams', 'oparams'):
        for i, p in enumerate(cfg[key]):
            if p['fit']:
                c = _copy(case)
                c['config'][key][i]['fit'] = False
                yield c
            if p['mode'] != 'linear':
                c = _copy(case)
                c['config'][key][i]['mode'] = 'linear'
                yield c
    for key in ('mderived', 'oderived'):
        for i, d in enumerate(cfg[key]):
            if d['compute']:
                c = _copy(case)
                c['config'][key][i]['compute'] = False
                yield c


def _copy(case):
    import copy
    return copy.deepcopy(case)
