"""Real-model share of C07: the parameter tables come from
SimpleForwardModel.collect_fitting_parameters over a small real
TransmissionModel (planet, star, pressure, temperature, chemistry, gases,
contributions)."""
import numpy as np

from sim import realmodel as R
from sim import scenario as S

# parameters the history may touch (positive values, positive default bounds,
# deterministic getter); every other parameter stays in the reference with its
# default settings
SAFE = ['planet_mass', 'planet_radius', 'T', 'clouds_pressure',
        'atm_min_pressure', 'atm_max_pressure', 'He_H2', 'N2_H2']

# What the components declare for a freshly built model (mode, fitted by
# default, default bounds), written down from the decorators and
# add_fittable_param calls: the tables a model offers are compared with THIS,
# not only with themselves.
EXPECTED_DEFAULTS = {
    'planet_mass': ('linear', False, [0.5, 1.5]),
    'planet_radius': ('linear', True, [0.9, 1.1]),
    'planet_distance': ('linear', False, [1.0, 2.0]),
    'planet_sma': ('linear', False, [1.0, 2.0]),
    'T': ('linear', False, [300.0, 2000.0]),
    'atm_min_pressure': ('log', False, [0.1, 1.0]),
    'atm_max_pressure': ('log', False, [0.1, 1.0]),
    'clouds_pressure': ('log', False, [0.001, 1000000.0]),
    'He_H2': ('log', False, [1e-12, 0.1]),
    'N2_H2': ('log', False, [1e-12, 0.1]),
    'H2O': ('log', False, [1e-12, 0.1]),
    'CH4': ('log', False, [1e-12, 0.1]),
    'CO2': ('log', False, [1e-12, 0.1]),
    'CO': ('log', False, [1e-12, 0.1]),
}
EXPECTED_DERIVED = {'mu': True, 'logg': False, 'avg_T': False,
                    'metallicity': False, 'log_F_bol': False}


def defaults_as_declared(model):
    """None, or a message naming the first parameter whose default mode,
    fit flag or bounds differ from what its component declares."""
    for n, (mode, fit, bounds) in EXPECTED_DEFAULTS.items():
        t = model.fittingParameters.get(n)
        if t is None:
            continue
        got = (t[4], bool(t[5]), [float(x) for x in t[6]])
        if got != (mode, fit, bounds):
            return '%s: %r, declared %r' % (n, got, (mode, fit, bounds))
    for n, comp in EXPECTED_DERIVED.items():
        t = model.derivedParameters.get(n)
        if t is not None and bool(t[3]) != comp:
            return 'derived %s: compute=%r, declared %r' % (n, bool(t[3]),
                                                           comp)
    return None


def gen_config(rng):
    # (emission and direct-image models declare parameters on the model
    # object itself)
    mcfg = R.gen_model_cfg(rng, family=rng.choice(['transmission',
                                                   'transmission', 'emission',
                                                   'directimage']),
                           contribs=['Absorption'] +
                           [c for c in ('CIA', 'Rayleigh', 'SimpleClouds')
                            if rng.random() < 0.6])
    mcfg['nlayers'] = rng.randint(3, 5)
    mcfg['opac']['ngrid'] = rng.randint(8, 14)
    mcfg['tp'] = {'kind': 'isothermal', 'T': rng.uniform(600, 2200)}
    mcfg['clouds_pressure'] = 10 ** rng.uniform(1, 5)
    if rng.random() < 0.35:
        # three fill gases: two ratio parameters made in a loop
        mcfg['fill'] = ['H2', 'He', 'N2']
        mcfg['ratio'] = [rng.uniform(0.05, 0.3), rng.uniform(0.001, 0.05)]
        mcfg['molecules'] = [m for m in mcfg['molecules']
                             if m['name'] != 'N2']
    cfg = {'kind': 'real', 'model': mcfg, 'obs': S.gen_obs(rng, mcfg)}
    R.install_opacities(mcfg)
    model = R.build_model(mcfg, install=False)
    mp = []
    for name, t in model.fittingParameters.items():
        touch = name in SAFE or name in [m['name'] for m in mcfg['molecules']]
        mp.append({'name': name, 'mode': t[4], 'fit': bool(t[5]),
                   'bounds': [float(t[6][0]), float(t[6][1])],
                   'value': float(t[2]()), 'touch': touch})
    md = [{'name': n, 'compute': bool(t[3]), 'terms': []}
          for n, t in model.derivedParameters.items()]
    cfg.update(mparams=mp, mderived=md, oparams=[], oderived=[], ngrid=0)
    return cfg


def install(cfg):
    R.install_opacities(cfg['model'])


def build(cfg):
    model = R.build_model(cfg['model'], install=False)
    obs = S.build_obs(cfg['obs'])
    return model, obs


def sync_ref_from_model(ref, model, obs):
    """Getters of real components convert units; take the reference values from
    the freshly built model so that later equality checks are exact."""
    for n in ref.order:
        o = model if ref.params[n]['owner'] == 'm' else obs
        ref.values[n] = o.fittingParameters[n][2]()
