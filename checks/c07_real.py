"""Real-model share of C07: the parameter tables come from
SimpleForwardModel.collect_fitting_parameters over a small real
TransmissionModel (planet, star, pressure, temperature, chemistry, gases,
contributions)."""
import numpy as np

from sim import realmodel as R
from sim import scenario as S

# parameters the history may touch (positive values, positive default bounds,
# deterministic getter); every other parameter stays in the reference with its
# default settings
SAFE = ['planet_mass', 'planet_radius', 'T', 'clouds_pressure',
        'atm_min_pressure', 'atm_max_pressure']


def gen_config(rng):
    # (emission and direct-image models declare parameters on the model
    # object itself)
    mcfg = R.gen_model_cfg(rng, family=rng.choice(['transmission',
                                                   'transmission', 'emission',
                                                   'directimage']),
                           contribs=['Absorption'] +
                           [c for c in ('CIA', 'Rayleigh', 'SimpleClouds')
                            if rng.random() < 0.6])
    mcfg['nlayers'] = rng.randint(3, 5)
    mcfg['opac']['ngrid'] = rng.randint(8, 14)
    mcfg['tp'] = {'kind': 'isothermal', 'T': rng.uniform(600, 2200)}
    mcfg['clouds_pressure'] = 10 ** rng.uniform(1, 5)
    cfg = {'kind': 'real', 'model': mcfg, 'obs': S.gen_obs(rng, mcfg)}
    R.install_opacities(mcfg)
    model = R.build_model(mcfg, install=False)
    mp = []
    for name, t in model.fittingParameters.items():
        touch = name in SAFE or name in [m['name'] for m in mcfg['molecules']]
        mp.append({'name': name, 'mode': t[4], 'fit': bool(t[5]),
                   'bounds': [float(t[6][0]), float(t[6][1])],
                   'value': float(t[2]()), 'touch': touch})
    md = [{'name': n, 'compute': bool(t[3]), 'terms': []}
          for n, t in model.derivedParameters.items()]
    cfg.update(mparams=mp, mderived=md, oparams=[], oderived=[], ngrid=0)
    return cfg


def install(cfg):
    R.install_opacities(cfg['model'])


def build(cfg):
    model = R.build_model(cfg['model'], install=False)
    obs = S.build_obs(cfg['obs'])
    return model, obs


def sync_ref_from_model(ref, model, obs):
    """Getters of real components convert units; take the reference values from
    the freshly built model so that later equality checks are exact."""
    for n in ref.order:
        o = model if ref.params[n]['owner'] == 'm' else obs
        ref.values[n] = o.fittingParameters[n][2]()
