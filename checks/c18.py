"""C18 — parallel post-processing is invariant to how samples are split across
ranks.  Simulated MPI world (DESIGN §5.1).
"""
import math
import random as pyrandom

import numpy as np

from sim.kernel import Streams, EventLog, Outcome, Violation, H
from sim import models as M
from sim import realmodel as R
from sim import scenario as S
from sim.mpi_world import SimWorld

_warm = False
DERIVED_POOL = ['mu', 'logg', 'avg_T']


def warmup():
    global _warm
    if _warm:
        return
    import logging
    import taurex.log
    logging.getLogger('taurex').setLevel(logging.CRITICAL)
    taurex.log.disableLogging()
    rng = pyrandom.Random(1)
    for fam in ('transmission', 'emission'):
        cfg = R.gen_model_cfg(rng, family=fam,
                              contribs=['Absorption', 'CIA', 'Rayleigh'])
        R.build_model(cfg).model()
    _warm = True


# --------------------------------------------------------------------------
# generation
# --------------------------------------------------------------------------

WEIGHT_FAMILIES = ['uniform', 'dirichlet', 'nested', 'ties', 'dominant',
                   'denormal', 'zeros']


def gen_weights(rng, n, family):
    if family == 'uniform':
        w = [1.0 / n] * n
    elif family == 'dirichlet':
        w = [rng.expovariate(1.0) for _ in range(n)]
    elif family == 'nested':
        nz = rng.randint(0, max(0, n - 2))
        w = [0.0] * nz + [math.exp(-0.5 * ((i - (n - nz) * 0.7) / 2.0) ** 2)
                          for i in range(n - nz)]
    elif family == 'ties':
        vals = [rng.random() for _ in range(rng.randint(1, 3))]
        w = [rng.choice(vals) for _ in range(n)]
    elif family == 'dominant':
        w = [rng.random() * 1e-6 for _ in range(n)]
        w[rng.randrange(n)] = 1.0
    elif family == 'denormal':
        w = [rng.random() * 10 ** rng.uniform(-30, 0) for _ in range(n)]
    elif family == 'zeros':
        w = [0.0 if rng.random() < 0.4 else rng.random() for _ in range(n)]
        if not any(w):
            w[0] = 1.0
    s = sum(w)
    return [x / s for x in w]


def gen_ov(st, tier):
    """Direct histories on the streaming accumulator: R ranks, any assignment
    of samples to ranks, pooled result asked at several checkpoints of the
    same accumulators (more samples follow), values handed over as fresh
    arrays or through one re-filled buffer per rank."""
    c = st('config')
    d = st('data')
    Rn = c.choice([1, 1, 2, 3, 4, c.randint(1, 8)])
    N = c.choice([2, 3, 4, 5, 8, 13, c.randint(2, 40)])
    dim = c.choice([0, 1, 3, 6])
    fam = d.choice(WEIGHT_FAMILIES)
    scale = 10 ** d.uniform(-3, 3)
    off = d.choice([0.0, 0.0, 1e3, -50.0])
    vals = [[off + scale * d.gauss(0, 1) for _ in range(max(dim, 1))]
            for _ in range(N)]
    style = c.choice(['roundrobin', 'random', 'blocks', 'one_rank'])
    if style == 'roundrobin':
        assign = [i % Rn for i in range(N)]
    elif style == 'random':
        assign = [d.randrange(Rn) for _ in range(N)]
    elif style == 'blocks':
        assign = sorted(d.randrange(Rn) for _ in range(N))
    else:
        assign = [d.randrange(Rn)] * N
    ncp = c.choice([0, 1, 2, 3])
    cps = sorted(set(d.randint(1, N) for _ in range(ncp))) + [N]
    shape2d = None
    if dim == 6 and c.random() < 0.5:
        # two-dimensional quantities (gas x layer profiles), in C or Fortran
        # memory order
        shape2d = [c.choice([[2, 3], [3, 2]]), c.random() < 0.5]
    nan_comp = None
    if dim >= 3 and c.random() < 0.3:
        # one component is undefined (NaN) in every sample, as a bin outside
        # the model's range is: the other components must be unaffected
        nan_comp = c.randrange(dim)
    cfg = {'part': 'ov', 'R': Rn, 'N': N, 'dim': dim, 'values': vals,
           'nan_component': nan_comp, 'shape2d': shape2d,
           'weight_family': fam, 'weights': gen_weights(d, N, fam),
           'assign': assign, 'checkpoints': sorted(set(cps)),
           'reuse_buffer': c.random() < 0.4,
           # one process without mpi4py at all: taurex.mpi's fall-backs
           'no_mpi': Rn == 1 and c.random() < 0.5}
    s = st('sched')
    ops = []
    for _ in range(s.randint(2, 12)):
        perm = list(range(Rn))
        s.shuffle(perm)
        ops.append(['perm', perm])
    return {'config': cfg, 'ops': ops}


def exec_ov(case, keep_text=False):
    cfg = case['config']
    out = Outcome()
    log = EventLog(keep_text)
    Rn = cfg['R']
    perms = [op[1] for op in case['ops'] if op[0] == 'perm'
             and sorted(op[1]) == list(range(Rn))]
    N = cfg['N']
    dim = cfg['dim']
    X = np.array(cfg['values'], dtype=float)
    if dim == 0:
        X = X[:, 0]
    elif cfg.get('nan_component') is not None:
        X[:, cfg['nan_component']] = np.nan
        out.bump('probes', 'nan_component_in_every_sample')
    # as Optimizer.sample_parameters hands them over: never exactly zero
    W = np.array(cfg['weights'], dtype=float) + 1e-300
    assign = list(cfg['assign'])
    cps = [cp for cp in cfg['checkpoints'] if 1 <= cp <= N]
    if not cps or cps[-1] != N:
        cps.append(N)

    def viol(cls, key, detail):
        out.violations.append(Violation(cls, key, detail))

    world = SimWorld(Rn, perms=perms, log=log, cap=50 + 10 * len(cps))
    sh2 = cfg.get('shape2d')
    if sh2 is not None:
        out.bump('probes', 'two_dimensional_values_%s_order'
                 % ('fortran' if sh2[1] else 'c'))

    def body(r):
        from taurex.util.math import OnlineVariance
        ov = OnlineVariance()
        buf = np.zeros(dim) if dim else None
        res = []
        done = 0
        for cp in cps:
            for i in range(done, cp):
                if assign[i] % Rn != r:
                    continue
                if dim and sh2 is not None:
                    v = np.array(X[i]).reshape(sh2[0])
                    ov.update(np.asfortranarray(v) if sh2[1] else v, W[i])
                elif dim and cfg.get('reuse_buffer'):
                    buf[...] = X[i]
                    ov.update(buf, W[i])
                elif dim:
                    ov.update(np.array(X[i]), W[i])
                else:
                    ov.update(float(X[i]), W[i])
            done = cp
            res.append(ov.parallelVariance())
        return res

    if cfg.get('no_mpi') and Rn == 1:
        # no communicator: the wrappers of taurex/mpi.py take their
        # "mpi4py is not installed" branches (nothing is serialised)
        try:
            world.results[0] = body(0)
        except Exception as e:      # noqa
            import traceback
            world.errors[0] = (e, traceback.format_exc())
        results = world.results
        out.bump('probes', 'single_process_without_mpi4py')
    else:
        results = world.run(body)
    out.bump('steps', 'collectives', world.ncollectives)
    out.bump('steps', 'accumulator_runs')
    out.bump('faults', 'serialised_bytes', world.bytes_pickled)
    out.bump('probes', 'accumulator_history')
    if len(cps) > 1:
        out.bump('probes', 'pooled_result_asked_again')
    if cfg.get('reuse_buffer') and dim:
        out.bump('probes', 'values_through_reused_buffer')
    counts = [sum(1 for a in assign if a % Rn == r) for r in range(Rn)]
    out.signature = '%x' % H('ov', Rn, tuple(counts), tuple(cps), dim,
                             tuple(world.arrival_orders))
    out.nontrivial = Rn > 1 or len(cps) > 1
    try:
        if world.deadlock:
            viol('deadlock', 'collectives', world.deadlock)
            raise StopIteration
        for r in range(Rn):
            if world.errors[r] is not None:
                e, tb = world.errors[r]
                viol('rank-exception', 'ov:' + type(e).__name__,
                     'rank %d of %d: %r\n%s' % (r, Rn, e, tb[-1200:]))
                raise StopIteration
        from sim.kernel import canon
        for r in range(1, Rn):
            if canon(results[r]) != canon(results[0]):
                viol('ranks-disagree', 'ov', 'rank %d differs from rank 0' % r)
                raise StopIteration
        log.add('world', 'ov', results[0])
        for k, cp in enumerate(cps):
            got = results[0][k]
            x = X[:cp]
            w = W[:cp]
            if cp < 2:
                if not np.all(np.isnan(np.asarray(got, dtype=float))):
                    viol('std-mismatch', 'ov:fewer-than-two', 'checkpoint %d: '
                         'one sample must give NaN, got %r' % (cp, got))
                continue
            if w.max() < 1e-280:
                out.bump('probes', 'all_subnormal_subset')
                continue
            wn = w / w.max()
            mean = np.tensordot(wn, x, axes=(0, 0)) / wn.sum()
            var = np.tensordot(wn, (x - mean) ** 2, axes=(0, 0)) / wn.sum()
            with np.errstate(invalid='ignore'):
                scale = np.sqrt(np.max(x ** 2, axis=0))
            gota = np.asarray(got, dtype=float)
            if sh2 is not None and gota.shape == tuple(sh2[0]):
                gota = gota.reshape(-1)       # logical (C) order
            msg = _var_close(gota, np.asarray(var), np.asarray(scale), 'ov')
            if msg:
                viol('std-mismatch', 'ov:checkpoint%d' % min(k, 1),
                     '%s at checkpoint %d of %s (R=%d, per-rank counts %s)'
                     % (msg, cp, cps, Rn, counts))
                raise StopIteration
    except StopIteration:
        pass
    out.digest = log.digest()
    return out


def generate(run_seed, tier):
    st = Streams(run_seed)
    c = st('config')
    if st('part').random() < 0.15:
        return gen_ov(st, tier)
    rmax = 8 if tier == 'quick' else 24
    Rn = c.choice([1, 2, 2, 3, 3, 4, 5, 6, rmax, c.randint(1, rmax)])
    mcfg = R.gen_model_cfg(c)
    mcfg['contribs'] = ['Absorption'] + [x for x in ('CIA', 'Rayleigh')
                                         if c.random() < 0.4]
    R.add_extra_contribs(c, mcfg, p=0.2)
    if c.random() < 0.2:
        # a chemistry that reports condensates (their spread is one more
        # per-layer profile accumulated over the ranks)
        mcfg['condensate'] = True
    mcfg['nlayers'] = c.randint(2, 6)
    mcfg['opac']['ngrid'] = c.randint(10, 24)
    fit = S.gen_fit(c, mcfg, nmax=3, rich=True)
    derived = [d for d in DERIVED_POOL if c.random() < 0.5]
    if c.random() < 0.15:
        derived = []
    N = c.choice([1, 2, 3, 4, 5, 7, Rn, Rn + 1, 2 * Rn + 1,
                  c.randint(2, 48 if tier == 'quick' else 128)])
    N = max(1, N)
    big = Rn >= 2 and c.random() < (0.006 if tier == 'quick' else 0.003)
    if big:
        N = c.randint(1030, 1150)      # more than 1024 samples in one job
    targets = [0, 1, Rn - 1, Rn, Rn + 1, 2 * Rn - 1, 2 * Rn + 1, N, N // 2]
    k = min(N, max(0, c.choice(targets)))
    frac = min(1.0, (k + 0.5) / N) if k < N else 1.0
    if big:
        frac = 1.0
    d = st('data')
    family = d.choice(WEIGHT_FAMILIES)
    weights = gen_weights(d, N, family)
    if c.random() < 0.3:
        # weights that do not sum to one (PolyChord scales them to a maximum
        # of one, a MultiNest mode holds its share of the total)
        k_ = 10 ** d.uniform(-3, 2)
        weights = [w_ * k_ for w_ in weights]
    samples_u = [[d.uniform(0.02, 0.98) for _ in fit] for _ in range(N)]
    if c.random() < 0.1 and N >= 3:
        # a sharply peaked posterior: neighbouring samples agree to ~1e-6
        u0 = [d.uniform(0.1, 0.9) for _ in fit]
        samples_u = [[u + 1e-6 * d.uniform(-1, 1) for u in u0]
                     for _ in range(N)]
    if c.random() < 0.2 and N >= 3 and len(fit) >= 2:
        # one fitted coordinate takes only a few distinct values: derived
        # parameters that depend on it alone have exact ties between samples
        # of different weight
        j = c.randrange(len(fit))
        levels = [d.uniform(0.05, 0.95) for _ in range(c.choice([2, 2, 3]))]
        for row in samples_u:
            row[j] = d.choice(levels)
    cfg = {'R': Rn, 'model': mcfg, 'obs': S.gen_obs(c, mcfg), 'fit': fit,
           'derived': derived, 'N': N, 'sigma_fraction': frac,
           'weight_family': family, 'weights': weights,
           'samples_u': samples_u, 'pyseed': d.randrange(2**31),
           'native_binner': c.random() < 0.2}
    if big:
        cfg['derived'] = cfg['derived'][:1]
    if c.random() < 0.3:
        # a second solution (mode) post-processed by the same objects
        N2 = max(1, c.choice([1, 2, 3, Rn, Rn + 1, N, c.randint(2, 24)]))
        fam2 = d.choice(WEIGHT_FAMILIES)
        cfg['extra_solutions'] = [{
            'N': N2, 'weight_family': fam2, 'weights': gen_weights(d, N2, fam2),
            'samples_u': [[d.uniform(0.02, 0.98) for _ in fit]
                          for _ in range(N2)]}]
        if c.random() < 0.4:
            # not a second mode but a second FIT: the sampler's store is
            # replaced and the same solution index is post-processed again by
            # the same long-lived optimizer
            cfg['refit'] = True
    s = st('sched')
    bias = s.choice(['random', 'random', 'starve_last', 'starve_first',
                     'natural'])
    ops = []
    victim = s.randrange(Rn)
    for _ in range(s.randint(4, 24)):
        perm = list(range(Rn))
        if bias != 'natural':
            s.shuffle(perm)
        if bias == 'starve_last':
            perm.remove(victim)
            perm.append(victim)
        elif bias == 'starve_first':
            perm.remove(victim)
            perm.insert(0, victim)
        ops.append(['perm', perm])
    cfg['sched_bias'] = bias
    return {'config': cfg, 'ops': ops}


# --------------------------------------------------------------------------
# execution
# --------------------------------------------------------------------------

def make_optimizer_class():
    from taurex.optimizer import Optimizer

    class PostOptimizer(Optimizer):
        """What every rank holds after a real sampler run: the posterior."""

        def __init__(self, observed, model, samples, weights, sigma_fraction):
            super().__init__('post', observed=observed, model=model,
                             sigma_fraction=sigma_fraction)
            self._s = samples
            self._w = weights
            self.seen = []

        def get_samples(self, solution_id):
            return self._s[solution_id] if isinstance(self._s, list) \
                else self._s

        def get_weights(self, solution_id):
            return self._w[solution_id] if isinstance(self._w, list) \
                else self._w

        def replace_store(self, samples, weights):
            """A new sampler run finished: one solution, new posterior."""
            self._s = samples
            self._w = weights

        def update_model(self, fit_params):
            self.seen.append(tuple(float(x) for x in fit_params))
            return super().update_model(fit_params)

    return PostOptimizer


def _build_rank(cfg, samples, weights):
    model = R.build_model(cfg['model'], install=False)
    obs = S.build_obs(cfg['obs'])
    if cfg.get('native_binner'):
        # an observation on the model's own grid: its binner hands the input
        # back (binned IS native, the same array object).  Given through the
        # observation's public create_binner, which the optimizer asks.
        from taurex.binning import NativeBinner
        obs.create_binner = lambda: NativeBinner()
    opt = make_optimizer_class()(obs, model, samples, weights,
                                 cfg['sigma_fraction'])
    S.configure_optimizer(opt, cfg['fit'], cfg['derived'], model=model,
                          observed=obs)
    opt.compile_params()
    return model, obs, opt


def ref_quantiles(x, w, qs):
    """Weighted quantile by the documented rule: sort by value, cumulative
    normalised weights, linear interpolation of value against cdf."""
    idx = sorted(range(len(x)), key=lambda i: x[i])
    xs = [x[i] for i in idx]
    cdf = []
    acc = 0.0
    for i in idx:
        acc += w[i]
        cdf.append(acc)
    cdf = [c / cdf[-1] for c in cdf]
    return [float(np.interp(q, cdf, xs)) for q in qs]


def ref_quantile_envelope(x, w, qs):
    """With equal sample values the rule's result depends on the order of the
    tied samples only through the weight of the FIRST sample of each tied
    block (the end of the segment that climbs to the block); it is monotone
    in that weight.  Returns (lowest, highest) result over all orders: tied
    samples by descending weight, and by ascending weight."""
    def run(sign):
        idx = sorted(range(len(x)), key=lambda i: (x[i], sign * w[i]))
        xs = [x[i] for i in idx]
        acc, cdf = 0.0, []
        for i in idx:
            acc += w[i]
            cdf.append(acc)
        cdf = [c / cdf[-1] for c in cdf]
        return [float(np.interp(q, cdf, xs)) for q in qs]
    return run(-1), run(+1)


def _var_close(v_impl, v_ref, mean_ref, where):
    """Compare variances (not stds: sqrt amplifies round-off at var ~ 0)."""
    v_impl = np.asarray(v_impl, dtype=float)
    v_ref = np.asarray(v_ref, dtype=float)
    if v_impl.shape != v_ref.shape:
        return 'shape %s vs %s' % (v_impl.shape, v_ref.shape)
    nan_i = np.isnan(v_impl)
    nan_r = np.isnan(v_ref)
    if (nan_i != nan_r).any():
        return 'NaN pattern differs: impl has %d NaN, reference %d' \
            % (nan_i.sum(), nan_r.sum())
    ok = ~nan_r
    tol = 1e-9 * (np.abs(v_ref[ok]) + np.asarray(mean_ref)[ok] ** 2) + 1e-300
    bad = np.abs(v_impl[ok] - v_ref[ok]) > tol
    if bad.any():
        j = int(np.argmax(bad))
        return 'variance impl=%r ref=%r (max |x| %r)' \
            % (v_impl[ok][j], v_ref[ok][j], np.asarray(mean_ref)[ok][j])
    return None


def execute(case, keep_text=False):
    warmup()
    cfg = case['config']
    if cfg.get('part') == 'ov':
        return exec_ov(case, keep_text)
    out = Outcome()
    log = EventLog(keep_text)
    Rn = cfg['R']
    perms = [op[1] for op in case['ops'] if op[0] == 'perm'
             and sorted(op[1]) == list(range(Rn))]

    def viol(cls, key, detail):
        out.violations.append(Violation(cls, key, detail))

    R.install_opacities(cfg['model'])
    # reference objects (main thread, outside the world)
    model0 = R.build_model(cfg['model'], install=False)
    obs0 = S.build_obs(cfg['obs'])
    fit_by_name = {f['name']: f for f in cfg['fit']}
    order = S.fit_order(model0, obs0, cfg['fit'])
    posts = []
    for pc in [cfg] + list(cfg.get('extra_solutions', [])):
        sm = np.array([S.sample_theta(fit_by_name, order, us)
                       for us in pc['samples_u']], dtype=float)
        posts.append((sm.reshape(pc['N'], len(order)),
                      np.array(pc['weights'], dtype=float)))
    nsol = len(posts)
    refit = bool(cfg.get('refit')) and nsol > 1
    N = cfg['N']
    samples, weights = posts[0]
    derived = [d for d in cfg['derived']]

    world = SimWorld(Rn, perms=perms, log=log,
                     cap=nsol * (200 + 40 * (len(derived) + 8)))
    ranks = [None] * Rn
    allphases = [[dict() for _ in range(Rn)] for _ in range(nsol)]

    def body(r):
        model, obs, opt = _build_rank(cfg, [p[0].copy() for p in posts],
                                      [p[1].copy() for p in posts])
        ranks[r] = opt
        if r == 0:
            pyrandom.seed(cfg['pyseed'])
        res = []
        for sid in range(nsol):
            api_sid = sid
            if refit:
                opt.replace_store(posts[sid][0].copy(), posts[sid][1].copy())
                api_sid = 0
            opt.seen = []
            prof, spec = opt.generate_profiles(api_sid, obs.wavenumberGrid)
            allphases[sid][r]['profiles_seen'] = list(opt.seen)
            opt.seen = []
            dtrace = opt.compute_derived_trace(api_sid) if derived else None
            allphases[sid][r]['derived_seen'] = list(opt.seen)
            res.append((prof, spec, dtrace))
        return res

    allresults = world.run(body)
    single = [None] * nsol

    def run_single(sid):
        """The same post-processing of solution `sid` on one rank."""
        w1 = SimWorld(1, perms=[], log=None, cap=400)
        got = {}

        def body1(r):
            model, obs, opt = _build_rank(cfg, [p[0].copy() for p in posts],
                                          [p[1].copy() for p in posts])
            if refit:
                opt.replace_store(posts[sid][0].copy(), posts[sid][1].copy())
            got['d'] = opt.compute_derived_trace(0 if refit else sid)
        w1.run(body1)
        if w1.errors[0] is not None or w1.deadlock:
            return {}
        return got.get('d') or {}
    if nsol > 1:
        out.bump('probes', 'second_fit_same_optimizer' if refit
                 else 'second_solution_same_objects')
    out.bump('steps', 'collectives', world.ncollectives)
    out.bump('steps', 'world_runs')
    out.bump('faults', 'serialised_bytes', world.bytes_pickled)
    for k, v in world.kinds.items():
        out.bump('steps', 'coll:' + k, v)

    # probes / fault counts
    k_proc = int(N * cfg['sigma_fraction'])
    per_rank = [len(range(r, k_proc, Rn)) for r in range(Rn)]
    if Rn > 1:
        out.bump('faults', 'multi_rank')
        if 0 in per_rank:
            out.bump('faults', 'rank_with_0_samples')
            out.bump('probes', 'rank_with_0_samples')
        if 1 in per_rank:
            out.bump('faults', 'rank_with_1_sample')
            out.bump('probes', 'rank_with_1_sample')
    ws = sorted(weights.tolist())
    if any(a == b for a, b in zip(ws, ws[1:])):
        out.bump('faults', 'tied_weights')
        out.bump('probes', 'tied_weights')
    if (weights == 0).any():
        out.bump('faults', 'zero_weights')
        out.bump('probes', 'zero_weights')
    if cfg.get('sched_bias', '').startswith('starve'):
        out.bump('faults', 'rank_starvation')
    if k_proc < 2:
        out.bump('probes', 'fewer_than_2_processed')

    out.signature = '%x' % H(Rn, tuple(per_rank), N,
                             tuple(world.arrival_orders))
    out.nontrivial = Rn > 1

    try:
        if world.deadlock:
            viol('deadlock', 'collectives', world.deadlock)
            raise StopIteration
        for r in range(Rn):
            if world.errors[r] is not None:
                e, tb = world.errors[r]
                viol('rank-exception', type(e).__name__,
                     'rank %d of %d: %r\n%s' % (r, Rn, e, tb[-1500:]))
                raise StopIteration

        # (i) every rank returns the same dictionaries
        from sim.kernel import canon
        c0 = canon(allresults[0])
        for r in range(1, Rn):
            if canon(allresults[r]) != c0:
                viol('ranks-disagree', 'result', 'rank %d differs from rank 0'
                     % r)
                raise StopIteration
        log.add('world', 'result', allresults[0])
        allbc = [p for k, p in world.captured if k == 'bcast']
        if len(allbc) != nsol or any(b is None for b in allbc):
            viol('protocol', 'broadcast', '%d sample lists were broadcast for '
                 '%d solutions' % (len(allbc), nsol))
            raise StopIteration
        for sid in range(nsol):
            samples, weights = posts[sid]
            N = len(weights)
            k_proc = int(N * cfg['sigma_fraction'])
            per_rank = [len(range(r, k_proc, Rn)) for r in range(Rn)]
            phases = allphases[sid]
            results = [ar[sid] for ar in allresults]
            # (iv) exactly-once over profiles: union of per-rank vectors equals
            # the broadcast list
            bc = [allbc[sid]]
            bl = [(tuple(float(x) for x in p), float(w)) for p, w in bc[0]]
            if len(bl) != k_proc:
                viol('sample-count', 'profiles', 'int(N*sigma_fraction)=%d samples '
                     'expected for post-processing, %d were broadcast'
                     % (k_proc, len(bl)))
                raise StopIteration
            pool = {tuple(float(x) for x in s): i for i, s in enumerate(samples)}
            if len(set(p for p, w in bl)) != len(bl) or \
                    not all(p in pool for p, w in bl):
                viol('sample-count', 'profiles-distinct', 'broadcast list is not a '
                     'set of distinct posterior samples')
                raise StopIteration
            for p, w in bl:
                want = float(weights[pool[p]])
                if abs(w - want) > 1e-12 * want + 2e-300:
                    viol('sample-weight', 'profiles', 'sample %d is post-processed '
                         'with weight %r, its posterior weight is %r'
                         % (pool[p], w, want))
                    raise StopIteration
            seen = []
            for r in range(Rn):
                seen += phases[r]['profiles_seen']
            if sorted(seen) != sorted(p for p, w in bl):
                viol('not-exactly-once', 'profiles',
                     '%d samples drawn for post-processing, ranks processed %d '
                     '(multisets differ)' % (len(bl), len(seen)))
                raise StopIteration

            # (ii) reference two-pass weighted variance with a fresh single model
            acc = {'temp_profile_std': [], 'active_mix_profile_std': [],
                   'inactive_mix_profile_std': [], 'native_std': [],
                   'binned_std': []}
            if cfg['model'].get('condensate'):
                acc['condensate_profile_std'] = []
                out.bump('probes', 'condensate_profiles')
            wl = []
            binner = obs0.create_binner()
            if cfg.get('native_binner'):
                from taurex.binning import NativeBinner
                binner = NativeBinner()
            for theta, w in bl:
                S.ref_set(model0, obs0, fit_by_name, order, theta)
                ng, native, tau, _ = model0.model(wngrid=obs0.wavenumberGrid,
                                                  cutoff_grid=False)
                acc['temp_profile_std'].append(np.array(model0.temperatureProfile))
                acc['active_mix_profile_std'].append(
                    np.array(model0.chemistry.activeGasMixProfile))
                acc['inactive_mix_profile_std'].append(
                    np.array(model0.chemistry.inactiveGasMixProfile))
                if 'condensate_profile_std' in acc:
                    acc['condensate_profile_std'].append(
                        np.array(model0.chemistry.condensateMixProfile))
                acc['native_std'].append(np.array(native))
                acc['binned_std'].append(np.array(binner.bindown(ng, native)[1]))
                wl.append(w)
            prof, spec, dtrace = results[0]
            got = dict(prof)
            got.update(spec)
            for key in sorted(acc):
                if key not in got:
                    viol('missing-output', key, 'not in result')
                    continue
                impl_std = np.asarray(got[key], dtype=float)
                if len(wl) < 2:
                    if not np.all(np.isnan(impl_std)):
                        viol('std-mismatch', key, 'fewer than two processed '
                             'samples must give NaN, got %r' % (impl_std,))
                    continue
                if max(wl) < 1e-280:
                    out.bump('probes', 'all_subnormal_subset')
                    continue
                X = np.array(acc[key], dtype=float)
                wn = np.array(wl) / max(wl)
                mean = np.tensordot(wn, X, axes=(0, 0)) / wn.sum()
                var = np.tensordot(wn, (X - mean) ** 2, axes=(0, 0)) / wn.sum()
                # round-off of the streaming update is of order eps*max|x|^2,
                # also for samples whose weight is negligible in the mean
                scale = np.sqrt(np.max(X ** 2, axis=0))
                msg = _var_close(impl_std ** 2, var, scale, key)
                if msg:
                    viol('std-mismatch', key,
                         '%s R=%d per-rank counts=%s' % (msg, Rn, per_rank))
            if out.violations:
                raise StopIteration

            # (iii)+(iv) derived traces: one entry per sample, in sample order
            if derived:
                seen = []
                for r in range(Rn):
                    seen += phases[r]['derived_seen']
                if sorted(seen) != sorted(tuple(float(x) for x in s)
                                          for s in samples):
                    viol('not-exactly-once', 'derived',
                         'posterior has %d samples, ranks processed %d '
                         '(multisets differ)' % (N, len(seen)))
                    raise StopIteration
                ref_tr = {d: [] for d in derived}
                for i in range(N):
                    S.ref_set(model0, obs0, fit_by_name, order, samples[i])
                    model0.initialize_profiles()
                    for d in derived:
                        ref_tr[d].append(float(model0.derivedParameters[d][2]()))
                dn = [n for n in model0.derivedParameters if n in derived]
                if dtrace is None or sorted(dtrace) != sorted(
                        '%s_derived' % d for d in dn):
                    viol('derived-missing', 'keys', 'got %s want %s'
                         % (sorted(dtrace or {}), dn))
                    raise StopIteration
                for d in dn:
                    ent = dtrace['%s_derived' % d]
                    tr = np.asarray(ent['trace'], dtype=float)
                    rt = np.array(ref_tr[d])
                    if tr.shape != rt.shape:
                        viol('derived-trace', 'length', '%s: %d entries for %d '
                             'samples' % (d, tr.size, N))
                        continue
                    if not np.allclose(tr, rt, rtol=1e-12, atol=0):
                        same_set = np.allclose(np.sort(tr), np.sort(rt),
                                               rtol=1e-12, atol=0)
                        viol('derived-trace',
                             'order' if same_set else 'values',
                             '%s: trace not in sample order (R=%d, first '
                             'mismatch at sample %d)'
                             % (d, Rn, int(np.argmax(~np.isclose(
                                 tr, rt, rtol=1e-12, atol=0)))))
                        continue
                    nuniq = len(set(rt.tolist()))
                    if 1 < nuniq < len(rt):
                        # exact ties between samples of different weight: the
                        # quantile rule then depends on the order of the tied
                        # samples, so the oracle is what the statement names -
                        # the same code on ONE rank
                        if single[sid] is None:
                            single[sid] = run_single(sid)
                        out.bump('probes', 'tied_derived_values')
                        lo, hi = ref_quantile_envelope(
                            list(rt), list(weights), [0.16, 0.5, 0.84])
                        v50 = float(ent['value'])
                        tol = 1e-9 * max(abs(v50), abs(hi[2] - lo[0]), 1e-300)
                        for j, (nm, gv) in enumerate((
                                ('q16', v50 - float(ent['sigma_m'])),
                                ('value', v50),
                                ('q84', v50 + float(ent['sigma_p'])))):
                            if not lo[j] - tol <= gv <= hi[j] + tol:
                                viol('derived-summary', nm + ':tied-values',
                                     '%s: %r; the quantile rule gives a value '
                                     'in [%r, %r] for every order of the tied '
                                     'samples' % (d, gv, lo[j], hi[j]))
                        sent = (single[sid] or {}).get('%s_derived' % d)
                        if sent is None:
                            continue
                        for nm in ('value', 'sigma_m', 'sigma_p', 'mean'):
                            a, b = float(ent[nm]), float(sent[nm])
                            if abs(a - b) > 1e-12 * max(abs(b), 1e-300):
                                viol('derived-summary', nm + ':vs-one-rank',
                                     '%s: %r on %d ranks, %r in a single '
                                     'process' % (d, a, Rn, b))
                        continue
                    q16, q50, q84 = ref_quantiles(list(rt), list(weights),
                                                  [0.16, 0.5, 0.84])
                    for nm, want in (('value', q50), ('sigma_m', q50 - q16),
                                     ('sigma_p', q84 - q50)):
                        gotv = float(ent[nm])
                        if abs(gotv - want) > 1e-9 * max(abs(q50), 1e-300):
                            viol('derived-summary', nm, '%s: %r vs %r'
                                 % (d, gotv, want))
                    wm = float(np.sum(rt * weights) / np.sum(weights))
                    if abs(float(ent['mean']) - wm) > 1e-9 * max(abs(wm), 1e-300):
                        viol('derived-summary', 'mean', '%s: %r vs %r'
                             % (d, float(ent['mean']), wm))
    except StopIteration:
        pass
    out.digest = log.digest()
    return out


def simplify(case):
    import copy
    cfg = case['config']
    if cfg.get('part') == 'ov':
        for r in (1, 2):
            if r < cfg['R']:
                c = copy.deepcopy(case)
                c['config']['R'] = r
                c['ops'] = []
                yield c
        n = cfg['N']
        for keep in (2, 3, n // 2, n - 1):
            if 2 <= keep < n:
                c = copy.deepcopy(case)
                cc = c['config']
                cc['N'] = keep
                cc['values'] = cc['values'][:keep]
                cc['weights'] = cc['weights'][:keep]
                cc['assign'] = cc['assign'][:keep]
                cc['checkpoints'] = sorted(set(
                    min(cp, keep) for cp in cc['checkpoints']))
                yield c
        if len(cfg['checkpoints']) > 1:
            for i in range(len(cfg['checkpoints']) - 1):
                c = copy.deepcopy(case)
                del c['config']['checkpoints'][i]
                yield c
        if cfg.get('reuse_buffer'):
            c = copy.deepcopy(case)
            c['config']['reuse_buffer'] = False
            yield c
        return
    if cfg.get('extra_solutions'):
        c = copy.deepcopy(case)
        del c['config']['extra_solutions']
        yield c
    # fewer ranks
    for r in (1, 2, 3):
        if r < cfg['R']:
            c = copy.deepcopy(case)
            c['config']['R'] = r
            c['ops'] = []
            yield c
    # fewer samples
    if cfg['N'] > 2:
        for n in (2, 3, cfg['N'] // 2, cfg['N'] - 1):
            if 2 <= n < cfg['N']:
                c = copy.deepcopy(case)
                k = int(cfg['N'] * cfg['sigma_fraction'])
                c['config']['N'] = n
                c['config']['weights'] = cfg['weights'][:n]
                s = sum(c['config']['weights']) or 1.0
                if s == 0:
                    continue
                c['config']['samples_u'] = cfg['samples_u'][:n]
                k2 = min(k, n)
                c['config']['sigma_fraction'] = min(1.0, (k2 + 0.5) / n) \
                    if k2 < n else 1.0
                yield c
    # fewer derived / fitted
    for i in range(len(cfg['derived'])):
        c = copy.deepcopy(case)
        del c['config']['derived'][i]
        yield c
    if len(cfg['fit']) > 1:
        for i in range(len(cfg['fit'])):
            c = copy.deepcopy(case)
            del c['config']['fit'][i]
            for row in c['config']['samples_u']:
                del row[-1]
            for ex in c['config'].get('extra_solutions', []):
                for row in ex['samples_u']:
                    del row[-1]
            yield c
    # simpler model
    if len(cfg['model']['contribs']) > 1 and \
            not S.fit_needs_contribs(cfg['fit']):
        c = copy.deepcopy(case)
        c['config']['model']['contribs'] = ['Absorption']
        yield c
    if cfg['model']['nlayers'] > 3:
        c = copy.deepcopy(case)
        c['config']['model']['nlayers'] = 3
        yield c
    if cfg['sigma_fraction'] < 1.0:
        c = copy.deepcopy(case)
        c['config']['sigma_fraction'] = 1.0
        yield c
