"""C09 — posterior summaries are the weighted statistics of the stored samples.
Retrieval simulation (DESIGN §5.4): Optimizer.fit() end to end with the sampler
replaced by a peer that returns a generated posterior in memory (nestle) or as
chain files on disk (MultiNest, PolyChord), optionally on R simulated ranks.
"""
import math
import os
import random as pyrandom
import shutil

import numpy as np

from sim.kernel import Streams, EventLog, Outcome, Violation, H, canon
from sim import models as M
from sim import realmodel as R
from sim import scenario as S
from sim import refs
from sim import samplers
from sim.mpi_world import SimWorld
from checks.c18 import gen_weights, WEIGHT_FAMILIES, ref_quantiles, \
    ref_quantile_envelope, DERIVED_POOL

_warm = False


def warmup():
    global _warm
    if _warm:
        return
    import logging
    import taurex.log
    logging.getLogger('taurex').setLevel(logging.CRITICAL)
    taurex.log.disableLogging()
    samplers.install()
    rng = pyrandom.Random(1)
    cfg = R.gen_model_cfg(rng, family='transmission',
                          contribs=['Absorption', 'CIA', 'Rayleigh'])
    R.build_model(cfg).model()
    _warm = True


# --------------------------------------------------------------------------
# generation
# --------------------------------------------------------------------------

def generate(run_seed, tier):
    st = Streams(run_seed)
    c = st('config')
    sampler = c.choice(['nestle', 'nestle', 'multinest', 'multinest',
                        'polychord', 'nestle_real'])
    toy = sampler == 'nestle_real' or c.random() < 0.2
    if toy:
        from checks.c06 import gen_toy
        mcfg, fit = gen_toy(c)
        mcfg['invalid_above'] = None
        mcfg.pop('rows2d', None)      # (this check builds its own 1-D data)
        zero_map = c.random() < 0.35
        x = np.linspace(1.0, 2.0, mcfg['ngrid'])
        y = sum(p['value'] * x**k for k, p in enumerate(mcfg['mparams']))
        err = [float(0.02 * abs(v) + 0.01) for v in y]
        off = sum(q['value'] for q in mcfg['oparams'])
        mcfg['obs_y'] = [float(v - off + e * c.gauss(0, 1))
                         for v, e in zip(y, err)]
        mcfg['obs_err'] = err
        names = [p['name'] for p in mcfg['mparams']]
        mcfg['mderived'] = [{'name': 'dm0', 'compute': False,
                             'terms': sorted(c.sample(names,
                                                      c.randint(1, len(names))))}]
        derived = ['dm0'] if c.random() < 0.6 else []
        if derived and c.random() < 0.4:
            # a derived parameter that is undefined (NaN) for part of the
            # posterior, listed before the ordinary one
            p0 = mcfg['mparams'][0]
            mcfg['mderived'].insert(0, {
                'name': 'dnan0', 'compute': False, 'terms': [p0['name']],
                'log_above': p0['bounds'][0] + (p0['bounds'][1] -
                                                p0['bounds'][0])
                * c.uniform(0.3, 0.7)})
            derived = ['dnan0', 'dm0']
        obs_cfg = None
    else:
        mcfg = R.gen_model_cfg(c, family=c.choice(
            ['transmission', 'transmission', 'emission', 'directimage']))
        R.add_extra_contribs(c, mcfg, p=0.25)
        mcfg['nlayers'] = c.randint(2, 6)
        mcfg['opac']['ngrid'] = c.randint(12, 24)
        mcfg['kind'] = 'real'
        fit = S.gen_fit(c, mcfg, nmax=3, rich=True)
        derived = [d for d in DERIVED_POOL if c.random() < 0.4]
        if c.random() < 0.3:
            derived = []
        obs_cfg = S.gen_obs(c, mcfg)
    Rn = c.choice([1, 1, 1, 2, 3])
    d = st('data')
    multimodal = sampler in ('multinest', 'polychord') and c.random() < 0.6
    nmodes = 1
    if multimodal:
        nmodes = c.choice([1, 2, 2, 3])
        if c.random() < 0.04:
            nmodes = c.randint(11, 13)     # solution10 sorts before solution2
    equal = c.random() < 0.4
    modes = []
    n0 = d.choice([2, 3, 5, 8, 13, d.randint(2, 60)])
    if sampler == 'nestle_real':
        Rn = 1
        nmodes = 1
    for k in range(nmodes):
        n = n0 if (equal or k == 0) else max(2, n0 + d.randint(-n0 + 2, 8))
        fam = d.choice(WEIGHT_FAMILIES)
        w = gen_weights(d, n, fam)
        su = [[d.uniform(0.02, 0.98) for _ in fit] for _ in range(n)]
        if d.random() < 0.12:
            # a sharply peaked posterior: MAP, median and every sample agree
            # to about 1e-6 (and are still distinct)
            u0 = [d.uniform(0.1, 0.9) for _ in fit]
            su = [[u + 1e-6 * d.uniform(-1, 1) for u in u0] for _ in range(n)]
        elif d.random() < 0.15 and n >= 3 and len(fit) >= 2:
            # one coordinate takes only a few distinct values (a parameter
            # the data do not constrain, a sampler that repeats points):
            # equal sample values with different weights
            j = d.randrange(len(fit))
            levels = [d.uniform(0.05, 0.95) for _ in range(d.choice([2, 2, 3]))]
            for row in su:
                row[j] = d.choice(levels)
        m2 = [d.uniform(10, 500) for _ in range(n)]
        if sampler == 'polychord' and d.random() < 0.6:
            # PolyChord's chain files carry weights scaled to a maximum of 1
            w = [x / max(w) for x in w]
        elif sampler == 'multinest' and nmodes > 1 and d.random() < 0.6:
            # each mode of a MultiNest run holds its share of a total of 1
            share = d.uniform(0.05, 0.9)
            w = [x * share for x in w]
        elif sampler == 'nestle' and d.random() < 0.2:
            # (nestle's weights sum to one only up to the remaining evidence)
            share = d.uniform(0.9, 1.0)
            w = [x * share for x in w]
        modes.append({'family': fam, 'weights': w, 'samples_u': su,
                      'm2logl': m2})
    def gen_modes(nm):
        out_ = []
        m0 = d.choice([2, 3, 5, 8, 13, d.randint(2, 60)])
        for k in range(nm):
            n = m0 if (equal or k == 0) else max(2, m0 + d.randint(-m0 + 2, 8))
            fam = d.choice(WEIGHT_FAMILIES)
            out_.append({'family': fam, 'weights': gen_weights(d, n, fam),
                         'samples_u': [[d.uniform(0.02, 0.98) for _ in fit]
                                       for _ in range(n)],
                         'm2logl': [d.uniform(10, 500) for _ in range(n)]})
        return out_
    second = None
    if sampler != 'nestle_real' and c.random() < 0.25:
        # the same optimizer object is fitted a second time (other posterior,
        # possibly another number of modes)
        second = gen_modes(c.choice([1, 2, 3]) if multimodal else 1)
    poly_cluster = True
    if sampler == 'polychord' and c.random() < 0.3:
        # PolyChord run with clustering switched off (constructor option):
        # one solution, read from the main chain file; cluster files of an
        # earlier run may still lie in the directory
        poly_cluster = False
        modes = modes[:1]
        if second:
            second = second[:1]
    cfg = {'sampler': sampler, 'R': Rn, 'model': mcfg,
           'poly_cluster': poly_cluster,
           'obs': obs_cfg, 'fit': fit, 'derived': derived,
           'multimodal': multimodal, 'modes': modes,
           'sigma_fraction': c.choice([0.1, 0.5, 1.0, 1.0]),
           'pyseed': d.randrange(2**31), 'npseed': d.randrange(2**31),
           'stale_files': c.random() < 0.3,
           'leading_blank': c.random() < 0.5,
           'output_size': c.choice([1, 3, 6])}
    if toy and zero_map and sampler != 'nestle_real':
        cfg['zero_map'] = True
    if second:
        cfg['second_fit'] = second
        if obs_cfg is not None and c.random() < 0.5:
            # ... after the observation was replaced (other bin layout)
            cfg['second_obs'] = S.gen_obs(c, mcfg)
        if sampler == 'multinest' and c.random() < 0.4:
            # ... or with another file prefix (the first run's files stay)
            cfg['second_prefix'] = c.choice(['2-', 'b_', 'run2-'])
    return {'config': cfg, 'ops': []}


# --------------------------------------------------------------------------
# execution
# --------------------------------------------------------------------------

class Stop(Exception):
    pass


def _post_from_cfg(cfg, fit_by_name, order, key='modes'):
    """Materialise the generated posterior (per mode) in the prior's space."""
    modes = []
    for md in cfg[key]:
        s = [S.sample_theta(fit_by_name, order, us) for us in md['samples_u']]
        s = [list(map(float, r)) for r in s]
        w = list(map(float, md['weights']))
        m2 = list(map(float, md['m2logl']))
        jmax = max(range(len(w)), key=lambda j: w[j])
        jml = min(range(len(m2)), key=lambda j: m2[j])
        if cfg.get('zero_map'):
            # the best sample has a coordinate that is exactly 0.0 in the
            # space of its prior (log10 x = 0 for x = 1)
            jz = jml if cfg['sampler'] == 'polychord' else jmax
            for i, n_ in enumerate(order):
                sp = fit_by_name[n_]['prior']
                if sp['kind'] in ('LogUniform', 'LogGaussian'):
                    b = M.ref_prior_bounds(sp)
                    if b[0] < 0.0 < b[1]:
                        s[jz][i] = 0.0
                        break
        modes.append({'samples': s, 'weights': w, 'm2logl': m2,
                      'map': s[jmax], 'ml': s[jml]})
    return modes


def execute(case, keep_text=False, after_fit=None):
    warmup()
    cfg = case['config']
    out = Outcome()
    log = EventLog(keep_text)
    kind = cfg['sampler']
    mcfg = cfg['model']
    fit = cfg['fit']
    fit_by_name = {f['name']: f for f in fit}
    derived = list(cfg['derived'])
    Rn = cfg['R']

    def viol(cls, key, detail):
        out.violations.append(Violation(cls, key, detail))

    is_toy = mcfg.get('kind') == 'toy'

    cur_obs = [cfg['obs']]

    def mk():
        if is_toy:
            return M.build_toy(mcfg)
        return R.build_model(mcfg, install=False), S.build_obs(cur_obs[0])

    if not is_toy:
        R.install_opacities(mcfg)
    else:
        out.bump('probes', 'toy_model_run')
    model0, obs0 = mk()
    order = S.fit_order(model0, obs0, fit)
    specs = [fit_by_name[n]['prior'] for n in order]
    ndim = len(order)
    rounds = [_post_from_cfg(cfg, fit_by_name, order)]
    if cfg.get('second_fit'):
        rounds.append(_post_from_cfg(cfg, fit_by_name, order, 'second_fit'))
    modes = rounds[0]
    calls = {}        # rank -> number of sampler runs so far
    scratch = os.environ.get('VERIF_RUN_SCRATCH', '/dev/shm')
    chain = os.path.join(scratch, 'chains-c09')
    shutil.rmtree(chain, ignore_errors=True)
    os.makedirs(chain, exist_ok=True)
    if cfg.get('stale_files') and kind in ('multinest', 'polychord'):
        # files of an earlier run with another dimension / sample count
        stale = [{'samples': [[0.1] * (ndim + 1)] * 3,
                  'weights': [0.2, 0.3, 0.5], 'm2logl': [1.0, 2.0, 3.0],
                  'map': [0.1] * (ndim + 1), 'ml': [0.1] * (ndim + 1)}]
        if kind == 'multinest':
            samplers.write_multinest_files(os.path.join(chain, '1-'), stale,
                                           True)
        else:
            samplers.write_polychord_files(chain, stale + stale)
        out.bump('faults', 'stale_chain_files')

    class Plan(object):
        def __init__(self):
            self.written = False
            self.truth = None

        def on_run(self, skind, cbs, kwargs):
            from sim import mpi_world
            rank = mpi_world.current_rank()
            modes = rounds[min(calls.get(rank, 0), len(rounds) - 1)]
            calls[rank] = calls.get(rank, 0) + 1
            if skind == 'nestle':
                import nestle
                m = modes[0]
                return nestle.Result([
                    ('niter', len(m['weights'])), ('ncall', 3 * len(m['weights'])),
                    ('logz', -12.5), ('logzerr', 0.1), ('h', 1.0),
                    ('samples', np.array(m['samples'], dtype=float)),
                    ('weights', np.array(m['weights'], dtype=float)),
                    ('logvol', np.zeros(len(m['weights']))),
                    ('logl', -0.5 * np.array(m['m2logl']))])
            if skind == 'multinest':
                base = kwargs['outputfiles_basename']
                if rank == 0:
                    samplers.write_multinest_files(
                        base, modes, cfg['multimodal'],
                        leading_blank=cfg.get('leading_blank', True))
                import taurex.mpi as tm
                tm.barrier()
                return None
            if skind == 'polychord':
                st = cbs['settings']
                if rank == 0:
                    samplers.write_polychord_files(
                        st.base_dir, modes, cluster=bool(st.do_clustering))
                    if not st.do_clustering:
                        out.bump('probes', 'polychord_without_clustering')
                import taurex.mpi as tm
                tm.barrier()
                return None
            raise ValueError(skind)

        def analyzer_stats(self, n_params, base):
            from sim import mpi_world
            rank = mpi_world.current_rank()
            cur = rounds[min(max(calls.get(rank, 1) - 1, 0), len(rounds) - 1)]
            return samplers.multinest_stats(cur, cfg['multimodal'])

    plan = Plan()
    samplers.set_plan(plan)
    use_double = kind != 'nestle_real'
    samplers.use_nestle_double(use_double)
    if not use_double:
        samplers.bound_real_nestle(maxcall=4000)
    klasses = samplers.optimizer_classes()
    solutions = [None] * Rn
    allsols = [None] * Rn
    opts = [None] * Rn

    def body(r):
        model, obs = mk()
        if kind in ('nestle', 'nestle_real'):
            opt = klasses['nestle'](observed=obs, model=model,
                                    num_live_points=40 if kind == 'nestle_real'
                                    else 5, tol=5.0,
                                    sigma_fraction=cfg['sigma_fraction'])
        elif kind == 'multinest':
            opt = klasses['multinest'](multi_nest_path=chain, observed=obs,
                                       model=model,
                                       search_multi_modes=cfg['multimodal'],
                                       sigma_fraction=cfg['sigma_fraction'])
        else:
            opt = klasses['polychord'](polychord_path=chain, observed=obs,
                                       model=model,
                                       cluster=cfg.get('poly_cluster', True),
                                       sigma_fraction=cfg['sigma_fraction'])
        S.configure_optimizer(opt, fit, derived, model=model, observed=obs)
        opts[r] = opt
        if r == 0:
            pyrandom.seed(cfg['pyseed'])
            np.random.seed(cfg['npseed'] % 2**32)
        from taurex import OutputSize
        sols = []
        for rnd_ in range(len(rounds)):
            if rnd_ == 1:
                if cfg.get('second_obs') and not is_toy:
                    opt.set_observed(S.build_obs(cfg['second_obs']))
                if cfg.get('second_prefix') and kind == 'multinest':
                    opt.multinest_prefix = cfg['second_prefix']
            sols.append(opt.fit(output_size=OutputSize(
                cfg.get('output_size', 6))))
        solutions[r] = sols[0]
        allsols[r] = sols
        return sols

    world = SimWorld(Rn, perms=[], log=log, cap=4000)
    import io
    import contextlib
    try:
        with contextlib.redirect_stdout(io.StringIO()):
            world.run(body)
    finally:
        samplers.use_nestle_double(False)
        samplers.set_plan(None)
        import taurex.log
        taurex.log.disableLogging()
    if after_fit is not None:
        # used by C16: hand the real solution dictionary over and stop here
        after_fit(solutions=solutions, opts=opts, world=world)
        shutil.rmtree(chain, ignore_errors=True)
        return out
    out.bump('steps', 'collectives', world.ncollectives)
    out.bump('steps', 'fits', Rn)
    if Rn > 1:
        out.bump('faults', 'multi_rank')
    sizes = [len(m['weights']) for m in modes]
    if len(set(sizes)) > 1:
        out.bump('faults', 'unequal_modes')
        out.bump('probes', 'unequal_modes')
    if len(modes) > 1:
        out.bump('probes', 'multi_mode')
    for m in modes:
        ws = sorted(m['weights'])
        if any(a == b for a, b in zip(ws, ws[1:])):
            out.bump('faults', 'tied_weights')
            out.bump('probes', 'tied_weights')
            break
    out.signature = '%x' % H(kind, len(modes), tuple(sizes),
                             tuple(m['family'] for m in cfg['modes']), Rn,
                             tuple(order), tuple(derived),
                             cfg['sigma_fraction'])
    out.nontrivial = True

    try:
        if world.deadlock:
            viol('deadlock', 'collectives', world.deadlock)
            raise Stop()
        for r in range(Rn):
            if world.errors[r] is not None:
                e, tb = world.errors[r]
                if isinstance(e, samplers.RealNestleBudget):
                    out.bump('probes', 'real_nestle_budget_exceeded')
                    raise Stop()
                if kind == 'nestle_real':
                    frames = [ln for ln in tb.splitlines()
                              if ln.startswith('  File ')]
                    inner = frames[frames.index(
                        [f for f in frames if 'nestle.py' in f
                         and 'site-packages' in f][0]):] \
                        if any('site-packages' in f and 'nestle.py' in f
                               for f in frames) else []
                    if inner and not any('/taurex/' in f for f in inner):
                        # failure inside the real sampler's own numerics
                        out.bump('probes', 'real_nestle_internal_failure')
                        raise Stop()
                key = '%s:%s' % (kind, type(e).__name__)
                if len(set(sizes)) > 1:
                    key += ':unequal-modes'
                viol('fit-raised', key, 'rank %d of %d: fit() raised %r\n%s'
                     % (r, Rn, e, tb[-1500:]))
                raise Stop()
        for rnd in range(len(rounds)):
            modes = rounds[rnd]
            solutions = [a[rnd] for a in allsols]
            cur_obs[0] = cfg['obs']
            if rnd:
                out.bump('probes', 'second_fit_same_optimizer')
                if cfg.get('second_obs') and not is_toy:
                    cur_obs[0] = cfg['second_obs']
                    out.bump('probes', 'observation_replaced_between_fits')
            c0 = canon(solutions[0])
            for r in range(1, Rn):
                if canon(solutions[r]) != c0:
                    viol('ranks-disagree', 'solution', 'rank %d differs' % r)
                    raise Stop()
            sol = solutions[0]
            opt = opts[0]
            log.add('fit', 'solution', sol)

            if kind == 'nestle_real':
                # ground truth = whatever the real sampler returned
                lr_ = samplers.last_real_result
                truth = [{'samples': np.array(lr_['samples']).tolist(),
                          'weights': np.array(lr_['weights']).tolist(),
                          'map': None, 'ml': None}]
                out.bump('probes', 'real_nestle_run')
            else:
                truth = modes

            nsol = len(truth)
            keys = sorted(k for k in sol if k.startswith('solution'))
            if keys != sorted('solution%d' % i for i in range(nsol)):
                viol('solutions', 'count', 'sampler reported %d mode(s), solution '
                     'dictionary has %s' % (nsol, keys))
                raise Stop()
            fit_names = [('log_' + n) if M.ref_prior_is_log(fit_by_name[n]['prior']) is True
                         else n for n in order]
            binner0 = obs0.create_binner()
            for si in range(nsol):
                sd = sol['solution%d' % si]
                tr = truth[si]
                S_ = np.array(tr['samples'], dtype=float)
                W_ = np.array(tr['weights'], dtype=float)
                got_s = np.asarray(sd['tracedata'], dtype=float)
                got_w = np.asarray(sd['weights'], dtype=float)
                if got_s.shape != S_.shape or not np.array_equal(got_s, S_):
                    viol('trace-changed', 'tracedata', 'solution %d: stored '
                         'samples differ from the sampler\'s' % si)
                    raise Stop()
                if got_w.shape != W_.shape or not np.array_equal(got_w, W_):
                    viol('trace-changed', 'weights', 'solution %d: stored weights '
                         'differ from the sampler\'s' % si)
                    raise Stop()
                fp = sd['fit_params']
                if sorted(fp) != sorted(fit_names):
                    viol('fit-params', 'names', '%s vs %s'
                         % (sorted(fp), sorted(fit_names)))
                    raise Stop()
                map_vec = []
                med_vec = []
                for i, fn in enumerate(fit_names):
                    ent = fp[fn]
                    col = S_[:, i].tolist()
                    if not np.array_equal(np.asarray(ent['trace'], dtype=float),
                                          S_[:, i]):
                        viol('trace-changed', 'param-trace', '%s: trace is not '
                             'column %d of the samples' % (fn, i))
                        raise Stop()
                    q16, q50, q84 = ref_quantiles(col, W_.tolist(),
                                                  [0.16, 0.5, 0.84])
                    scale = max(abs(q50), abs(q84 - q16), 1e-300)
                    tied_x = len(set(col)) < len(col)
                    if tied_x:
                        # equal sample values (a real sampler may return
                        # them): the quantile rule then depends on the order
                        # of the tied rows - every order gives a value
                        # inside the envelope
                        out.bump('probes', 'tied_sample_values')
                        lo, hi = ref_quantile_envelope(
                            col, W_.tolist(), [0.16, 0.5, 0.84])
                        v50 = float(ent['value'])
                        tol = 1e-9 * max(abs(v50), abs(hi[2] - lo[0]), 1e-300)
                        for j, (nm, gv) in enumerate((
                                ('q16', v50 - float(ent['sigma_m'])),
                                ('value', v50),
                                ('q84', v50 + float(ent['sigma_p'])))):
                            if not lo[j] - tol <= gv <= hi[j] + tol:
                                viol('quantile', nm + ':tied-values',
                                     '%s: %r; the weighted quantile rule '
                                     'gives a value in [%r, %r] for every '
                                     'order of the tied samples'
                                     % (fn, gv, lo[j], hi[j]))
                    for nm, want in (('value', q50), ('sigma_m', q50 - q16),
                                     ('sigma_p', q84 - q50)):
                        if not tied_x and \
                                abs(float(ent[nm]) - want) > 1e-9 * scale:
                            viol('quantile', nm, '%s: %r, weighted quantile rule '
                                 'gives %r' % (fn, float(ent[nm]), want))
                    # (with tied values the median is whichever member of the
                    # envelope - verified above - the code reported)
                    med_vec.append(float(ent['value']) if tied_x else q50)
                    wmean = float(np.sum(S_[:, i] * W_) / np.sum(W_))
                    if kind in ('nestle', 'nestle_real'):
                        jm = [j for j in range(len(W_)) if W_[j] == W_.max()]
                        mp = float(ent['map'])
                        if mp not in [col[j] for j in jm]:
                            viol('map', 'nestle', '%s: map %r is not a sample of '
                                 'greatest weight' % (fn, mp))
                        if abs(float(ent['mean']) - wmean) > 1e-9 * max(
                                abs(wmean), 1e-300):
                            viol('mean', 'nestle', '%s: %r vs weighted mean %r'
                                 % (fn, float(ent['mean']), wmean))
                        map_vec.append(mp)
                    elif kind == 'multinest':
                        mp = float(ent['nest_map'])
                        if mp != tr['map'][i]:
                            viol('map', 'multinest', '%s: nest_map %r, sampler '
                                 'reported %r' % (fn, mp, tr['map'][i]))
                        if abs(float(ent['mean']) - wmean) > 1e-9 * max(
                                abs(wmean), 1e-300):
                            viol('mean', 'multinest', '%s: %r vs weighted mean %r'
                                 % (fn, float(ent['mean']), wmean))
                        map_vec.append(mp)
                    else:
                        nm_ = np.asarray(ent['nest_mean'], dtype=float).ravel()
                        if nm_.size != 1 or abs(float(nm_[0]) - wmean) > \
                                1e-9 * max(abs(wmean), 1e-300):
                            viol('mean', 'polychord', '%s: %r vs weighted mean %r'
                                 % (fn, ent['nest_mean'], wmean))
                        mp = np.asarray(ent['nest_map'], dtype=float).ravel()
                        if mp.size != 1 or float(mp[0]) not in col:
                            viol('map', 'polychord', '%s: nest_map %r is not a '
                                 'stored sample' % (fn, ent['nest_map']))
                            raise Stop()
                        map_vec.append(float(mp[0]))
                # the MAP is ONE sample: the per-parameter entries must be the
                # coordinates of a single stored row (of greatest weight for
                # nestle), not a mixture of rows
                if not out.violations and kind != 'multinest':
                    rows = range(len(W_))
                    if kind in ('nestle', 'nestle_real'):
                        rows = [j for j in rows if W_[j] == W_.max()]
                    if not any(all(S_[j, i] == map_vec[i] for i in range(ndim))
                               for j in rows):
                        viol('map', kind + ':not-one-sample', 'the reported MAP '
                             'vector %r is not a single stored sample%s'
                             % (map_vec, ' of greatest weight'
                                if kind.startswith('nestle') else ''))
                if out.violations:
                    raise Stop()

                # spectrum at the MAP (fresh model, set by name, full native grid)
                m2, o2 = mk()
                S.ref_set(m2, o2, fit_by_name, order, map_vec)
                ng, ym, tau, _ = m2.model(cutoff_grid=False)
                sp = sd['Spectra']
                if not np.array_equal(np.asarray(sp['native_wngrid']), ng):
                    viol('spectrum', 'native_wngrid', 'differs from the native grid')
                elif not np.allclose(np.asarray(sp['native_spectrum']), ym,
                                     rtol=1e-12, atol=0):
                    viol('spectrum', 'native_spectrum', 'stored spectrum is not '
                         'the model at the MAP (max rel diff %.3g)'
                         % float(np.max(np.abs(np.asarray(sp['native_spectrum'])
                                               - ym) / np.abs(ym))))
                elif is_toy:
                    pass          # NativeBinner: no binned spectrum is stored
                else:
                    rb = refs.ref_bin(list(ng), list(ym),
                                      list(o2.wavenumberGrid), list(o2.binWidths))
                    bs_ = np.asarray(sp['binned_spectrum'], dtype=float)
                    if bs_.shape != np.array(rb).shape or not np.allclose(
                            bs_, np.array(rb, dtype=float), rtol=1e-11, atol=0):
                        viol('spectrum', 'binned_spectrum', 'stored binned '
                             'spectrum is not the MAP model binned to the '
                             'observation')
                # profiles at the median
                S.ref_set(m2, o2, fit_by_name, order, med_vec)
                m2.model(cutoff_grid=False)
                if is_toy:
                    pref = {}
                else:
                    # (written out here, not taken from
                    # taurex.util.output.generate_profile_dict: a key filed
                    # under the wrong name there would agree with itself)
                    pref = {
                        'temp_profile': m2.temperatureProfile,
                        'active_mix_profile':
                            m2.chemistry.activeGasMixProfile,
                        'inactive_mix_profile':
                            m2.chemistry.inactiveGasMixProfile,
                        'density_profile': m2.densityProfile,
                        'scaleheight_profile': m2.scaleheight_profile,
                        'altitude_profile': m2.altitudeProfile,
                        'gravity_profile': m2.gravity_profile,
                        'pressure_profile': m2.pressureProfile,
                        'mu_profile': m2.chemistry.muProfile}
                pr = sd['Profiles']
                for k in sorted(pref):
                    if k not in pr:
                        viol('profiles', 'missing', k)
                        continue
                    if not np.allclose(np.asarray(pr[k], dtype=float),
                                       np.asarray(pref[k], dtype=float),
                                       rtol=1e-12, atol=0):
                        viol('profiles', k, 'stored %s is not the profile of the '
                             'median solution' % k)
                for k in ('temp_profile_std', 'active_mix_profile_std'):
                    if k not in pr and not is_toy:
                        viol('profiles', 'missing', k)
                if out.violations:
                    raise Stop()

                # derived traces
                dn = [n for n in m2.derivedParameters if n in derived] + \
                     [n for n in o2.derivedParameters if n in derived]
                if dn:
                    dp = sd.get('derived_params')
                    if dp is None or sorted(dp) != sorted('%s_derived' % d
                                                          for d in dn):
                        viol('derived', 'keys', 'got %s want %s'
                             % (sorted(dp or {}), dn))
                        raise Stop()
                    ref_tr = {d: [] for d in dn}
                    for j in range(len(W_)):
                        S.ref_set(m2, o2, fit_by_name, order, S_[j])
                        m2.initialize_profiles()
                        for d in dn:
                            ref_tr[d].append(float(
                                (m2 if d in m2.derivedParameters
                                 else o2).derivedParameters[d][2]()))
                    for d in dn:
                        ent = dp['%s_derived' % d]
                        t = np.asarray(ent['trace'], dtype=float)
                        rt = np.array(ref_tr[d])
                        if t.shape != rt.shape:
                            viol('derived', 'length', '%s: %d entries for %d '
                                 'samples' % (d, t.size, rt.size))
                            continue
                        if not np.allclose(t, rt, rtol=1e-12, atol=0,
                                           equal_nan=True):
                            viol('derived', 'trace', '%s: trace is not the derived '
                                 'value at each sample in sample order' % d)
                            continue
                        if not np.all(np.isfinite(rt)):
                            # undefined for part of the posterior: the quantile rule
                            # says nothing about its summaries
                            out.bump('probes', 'derived_trace_with_nan')
                            continue
                        if 1 < len(set(rt.tolist())) < rt.size:
                            out.bump('probes', 'tied_derived_values')
                            lo, hi = ref_quantile_envelope(
                                list(rt), W_.tolist(), [0.16, 0.5, 0.84])
                            v50 = float(ent['value'])
                            tol = 1e-9 * max(abs(v50), abs(hi[2] - lo[0]),
                                             1e-300)
                            for j, (nm, gv) in enumerate((
                                    ('q16', v50 - float(ent['sigma_m'])),
                                    ('value', v50),
                                    ('q84', v50 + float(ent['sigma_p'])))):
                                if not lo[j] - tol <= gv <= hi[j] + tol:
                                    viol('derived', nm + ':tied-values',
                                         '%s: %r; the quantile rule gives a '
                                         'value in [%r, %r] for every order '
                                         'of the tied samples'
                                         % (d, gv, lo[j], hi[j]))
                            continue
                        q16, q50, q84 = ref_quantiles(list(rt), W_.tolist(),
                                                      [0.16, 0.5, 0.84])
                        scale = max(abs(q50), 1e-300)
                        for nm, want in (('value', q50), ('sigma_m', q50 - q16),
                                         ('sigma_p', q84 - q50)):
                            if abs(float(ent[nm]) - want) > 1e-9 * scale:
                                viol('derived', nm, '%s: %r vs %r'
                                     % (d, float(ent[nm]), want))
                elif 'derived_params' in sd and sd['derived_params']:
                    viol('derived', 'unexpected', 'derived output without derived '
                         'parameters enabled')
    except Stop:
        pass
    out.digest = log.digest()
    shutil.rmtree(chain, ignore_errors=True)
    return out


def simplify(case):
    import copy
    cfg = case['config']
    if cfg.get('second_fit'):
        c = copy.deepcopy(case)
        del c['config']['second_fit']
        yield c
        c = copy.deepcopy(case)
        c['config']['modes'] = c['config'].pop('second_fit')
        yield c
    if cfg['R'] > 1:
        c = copy.deepcopy(case)
        c['config']['R'] = 1
        yield c
    if len(cfg['modes']) > 1:
        for i in range(len(cfg['modes'])):
            c = copy.deepcopy(case)
            del c['config']['modes'][i]
            yield c
    for i, md in enumerate(cfg['modes']):
        n = len(md['weights'])
        for keep in (2, n // 2, n - 1):
            if 2 <= keep < n:
                c = copy.deepcopy(case)
                m = c['config']['modes'][i]
                m['weights'] = m['weights'][:keep]
                if sum(m['weights']) == 0:
                    continue
                m['samples_u'] = m['samples_u'][:keep]
                m['m2logl'] = m['m2logl'][:keep]
                yield c
    for i in range(len(cfg['derived'])):
        c = copy.deepcopy(case)
        del c['config']['derived'][i]
        yield c
    if len(cfg['fit']) > 1:
        for i in range(len(cfg['fit'])):
            c = copy.deepcopy(case)
            del c['config']['fit'][i]
            for md in c['config']['modes'] + c['config'].get('second_fit', []):
                for row in md['samples_u']:
                    del row[-1]
            yield c
    if cfg.get('stale_files'):
        c = copy.deepcopy(case)
        c['config']['stale_files'] = False
        yield c
    if len(cfg['model']['contribs']) > 1 and \
            not S.fit_needs_contribs(cfg['fit']):
        c = copy.deepcopy(case)
        c['config']['model']['contribs'] = ['Absorption']
        yield c
