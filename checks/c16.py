"""C16 — output files hold what was computed and reload to the same model.
Output-store machine (DESIGN §5.6): a history of store operations in phases
(open 'w' / close / re-open append), executed on R simulated ranks, against a
nested-dict reference model; read back with plain h5py.
"""
import math
import os
import random as pyrandom
import shutil

import numpy as np

from sim.kernel import Streams, EventLog, Outcome, Violation, H
from sim import realmodel as R
from sim import scenario as S
from sim import refs
from sim.mpi_world import SimWorld

_warm = False


def warmup():
    global _warm
    if _warm:
        return
    import logging
    import taurex.log
    logging.getLogger('taurex').setLevel(logging.CRITICAL)
    taurex.log.disableLogging()
    import taurex.output.hdf5  # noqa  (so that SimWorld patches its get_rank)
    rng = pyrandom.Random(1)
    for fam in ('transmission', 'emission'):
        cfg = R.gen_model_cfg(rng, family=fam,
                              contribs=['Absorption', 'CIA', 'Rayleigh'])
        R.build_model(cfg).model()
    _warm = True


# --------------------------------------------------------------------------
# generation of nested result dictionaries
# --------------------------------------------------------------------------

WORDS = ['T', 'mu', 'log_H2O', 'planet_radius', '$R_p$', 'spectrum', 'std',
         'Profiles', 'fit', 'value', 'sigma_m', 'trace', 'weights', 'alpha',
         'log(F$_{bol}$)', 'native', 'x y', 'a.b']


def gen_key(rng, used):
    while True:
        k = rng.choice(WORDS) + rng.choice(['', '_a', '_b', 'X', '-z'])
        if rng.random() < 0.08:
            k = rng.choice([7, 12, 3.5])          # non-string key
        if str(k) not in used and not str(k)[-1:].isdigit():
            used.add(str(k))
            return k


def gen_leaf(rng, depth):
    r = rng.random()
    if r < 0.12:
        return {'t': 'float', 'v': rng.choice([0.0, -1.5, 1e-300, 1e300,
                                               rng.uniform(-10, 10)])}
    if r < 0.20:
        return {'t': 'int', 'v': rng.choice([0, -3, 7, 2**40,
                                             rng.randint(-100, 100)])}
    if r < 0.25:
        return {'t': 'bool', 'v': rng.random() < 0.5}
    if r < 0.31:
        return {'t': 'npfloat', 'v': rng.uniform(-1e5, 1e5)}
    if r < 0.36:
        return {'t': 'npint', 'v': rng.randint(-10**6, 10**6)}
    if r < 0.44:
        n = rng.choice([0, 1, 5, 20, 63, 64]) if rng.random() < 0.85 \
            else rng.randint(65, 90)
        v = ''.join(rng.choice('abcXYZ_$\\{}^ 0123') for _ in range(n))
        if rng.random() < 0.1:
            # scalar strings are stored as unicode (accented author names,
            # a micro sign); only string LISTS are reduced to ASCII by the
            # writer
            v += rng.choice(['\u00b5m', 'Ren\u00e9', '\u00c5', '\u03bb'])
        return {'t': 'str', 'v': v}
    if r < 0.62:
        nd = rng.choice([0, 1, 1, 1, 2, 2, 3])
        shape = [rng.choice([0, 1, 2, 3, 5]) if rng.random() < 0.15
                 else rng.randint(1, 6) for _ in range(nd)]
        if rng.random() < 0.04:
            # an occasional large array (traces, native spectra): file sizes
            # then span 1 kB .. 100 kB
            shape = [rng.choice([1500, 4000, 12000])]
        elif rng.random() < 0.004:
            # and a rare very large one (optical depths of a high-resolution
            # run: tens of MB), 1-D or 2-D with an awkward leading dimension
            shape = rng.choice([[4500000], [101, 45000], [37, 120001]])
        return {'t': 'array', 'dtype': rng.choice(['f8', 'f8', 'f8', 'i8',
                                                   'b1', 'f4', 'i4']),
                'shape': shape, 'seed': rng.randrange(2**31),
                'nan': rng.random() < 0.1, 'inf': rng.random() < 0.06}
    if r < 0.70:
        n = rng.randint(0, 6)
        kind = rng.choice(['f', 'i', 'mixed'])
        v = [rng.uniform(-5, 5) if kind == 'f' or (kind == 'mixed' and
                                                   rng.random() < 0.5)
             else rng.randint(-9, 9) for _ in range(n)]
        return {'t': rng.choice(['list', 'tuple']), 'v': v}
    if r < 0.74:
        n, m = rng.randint(1, 4), rng.randint(1, 4)
        return {'t': 'list2d', 'v': [[rng.uniform(-1, 1) for _ in range(m)]
                                     for _ in range(n)]}
    if r < 0.82:
        n = rng.randint(1, 5)
        return {'t': 'strlist', 'v': [
            ''.join(rng.choice('abcXYZ_$\\{}^') for _ in range(
                rng.choice([1, 5, 20, 64]) if rng.random() < 0.9
                else rng.randint(65, 80))) for _ in range(n)]}
    if r < 0.85:
        base = rng.randint(1, 3)
        return {'t': 'ragged', 'v': [[rng.uniform(-1, 1) for _ in range(
            base + i)] for i in range(rng.randint(2, 3))]}
    if r < 0.90 and depth < 3:
        return {'t': 'dictlist', 'v': [gen_tree(rng, depth + 1, 2)
                                       for _ in range(rng.randint(1, 3))]}
    if depth < 3:
        return {'t': 'dict', 'v': gen_tree(rng, depth + 1, 4)}
    return {'t': 'float', 'v': rng.uniform(-1, 1)}


def gen_tree(rng, depth=0, nmax=6):
    used = set()
    out = []
    for _ in range(rng.randint(1, nmax)):
        k = gen_key(rng, used)
        out.append([k, gen_leaf(rng, depth)])
    dicts = [k for k, leaf in out if leaf['t'] == 'dict']
    if dicts and rng.random() < 0.25:
        # the same dictionary OBJECT under a second name (results often share
        # sub-dictionaries, e.g. one spectrum dictionary in two places)
        out.append([gen_key(rng, used), {'t': 'alias',
                                         'ref': rng.choice(dicts)}])
    return out          # list of [key, leaf] keeps order and non-str keys


def retype_tree(rng, tree):
    """Same keys and shapes, values that do not fit the stored types: what a
    second store under an existing name hands over (ints become fractional
    floats, strings grow, arrays change dtype)."""
    out = []
    for k, leaf in tree:
        out.append([k, retype_leaf(rng, leaf)])
    return out


def retype_leaf(rng, leaf):
    t = leaf['t']
    if t in ('float', 'npfloat'):
        return {'t': 'float', 'v': rng.uniform(-50, 50)}
    if t in ('int', 'npint'):
        return {'t': 'float', 'v': rng.randint(-1000, 1000) + 0.625}
    if t == 'bool':
        return {'t': 'int', 'v': rng.randint(2, 99)}
    if t == 'str':
        return {'t': 'str', 'v': leaf['v'] + 'longer_' * rng.randint(1, 12)}
    if t == 'array':
        dt = {'i8': 'f8', 'i4': 'f8', 'f4': 'f8', 'b1': 'i8',
              'f8': 'f8'}[leaf['dtype']]
        return {'t': 'array', 'dtype': dt, 'shape': list(leaf['shape']),
                'seed': rng.randrange(2**31), 'nan': False}
    if t in ('list', 'tuple'):
        return {'t': t, 'v': [rng.randint(-9, 9) + 0.375 for _ in leaf['v']]}
    if t == 'list2d':
        return {'t': t, 'v': [[rng.uniform(-1, 1) for _ in r]
                              for r in leaf['v']]}
    if t == 'strlist':
        return {'t': t, 'v': [x + 'longer_' * rng.randint(1, 12)
                              for x in leaf['v']]}
    if t == 'ragged':
        return {'t': t, 'v': [[rng.uniform(-1, 1) for _ in r]
                              for r in leaf['v']]}
    if t == 'dictlist':
        return {'t': t, 'v': [retype_tree(rng, x) for x in leaf['v']]}
    if t == 'dict':
        return {'t': t, 'v': retype_tree(rng, leaf['v'])}
    if t == 'alias':
        return dict(leaf)
    raise ValueError(t)


def tree_from_object(d):
    """Typed-leaf tree (same shape as gen_tree's) for a real result dictionary:
    leaves keep the object itself under 'obj'."""
    out = []
    for k, v in d.items():
        out.append([k, leaf_from_object(v)])
    return out


def leaf_from_object(v):
    if isinstance(v, dict):
        return {'t': 'dict', 'v': tree_from_object(v)}
    if isinstance(v, (bool, np.bool_)):
        return {'t': 'bool', 'obj': bool(v)}
    if isinstance(v, (int, np.integer)):
        return {'t': 'int', 'obj': int(v)}
    if isinstance(v, (float, np.floating)):
        return {'t': 'float', 'obj': float(v)}
    if isinstance(v, str):
        return {'t': 'str', 'obj': v}
    if isinstance(v, np.ndarray):
        return {'t': 'array', 'obj': v}
    if isinstance(v, (list, tuple)):
        if any(isinstance(x, str) for x in v):
            return {'t': 'strlist', 'obj': list(v)}
        if any(isinstance(x, dict) for x in v):
            return {'t': 'dictlist', 'v': [tree_from_object(x) for x in v]}
        try:
            a = np.array(v)
            if a.dtype != object:
                return {'t': 'list', 'obj': list(v)}
        except Exception:
            pass
        return {'t': 'raggedobj', 'v': [leaf_from_object(x) for x in v]}
    return {'t': 'unsupported', 'obj': repr(type(v))}


def materialise(tree):
    d = {}
    for k, leaf in tree:
        if leaf['t'] != 'alias':
            d[k] = mat_leaf(leaf)
    for k, leaf in tree:
        if leaf['t'] == 'alias' and leaf['ref'] in d:
            d[k] = d[leaf['ref']]           # the same object, not a copy
    return d


def resolve_alias(tree, leaf):
    """The dict leaf an alias stands for (None if it was shrunk away)."""
    for k, other in tree:
        if k == leaf['ref'] and other['t'] == 'dict':
            return other
    return None


def mat_leaf(leaf):
    t = leaf['t']
    if 'obj' in leaf:
        return leaf['obj']
    if t in ('float', 'int', 'bool', 'str'):
        return leaf['v']
    if t == 'npfloat':
        return np.float64(leaf['v'])
    if t == 'npint':
        return np.int64(leaf['v'])
    if t == 'array':
        rs = np.random.RandomState(leaf['seed'])
        shape = tuple(leaf['shape'])
        dt = leaf['dtype']
        if dt[0] == 'f':
            a = rs.uniform(-1e3, 1e3, size=shape).astype(dt)
            if leaf.get('nan') and a.size:
                a.flat[0] = np.nan
            if leaf.get('inf') and a.size:
                a.flat[-1] = -np.inf if leaf['seed'] % 2 else np.inf
        elif dt[0] == 'i':
            a = rs.randint(-1000, 1000, size=shape).astype(dt)
        else:
            a = rs.rand(*shape) < 0.5 if shape else np.array(rs.rand() < 0.5)
            a = np.asarray(a, dtype=bool)
        return a
    if t == 'list':
        return list(leaf['v'])
    if t == 'tuple':
        return tuple(leaf['v'])
    if t == 'list2d':
        return [list(r) for r in leaf['v']]
    if t == 'strlist':
        return list(leaf['v'])
    if t == 'ragged':
        return [list(r) for r in leaf['v']]
    if t == 'dictlist':
        return [materialise(x) for x in leaf['v']]
    if t == 'dict':
        return materialise(leaf['v'])
    raise ValueError(t)


def generate(run_seed, tier):
    st = Streams(run_seed)
    c = st('config')
    cfg = {'R': c.choice([1, 1, 2, 3]), 'part': c.choice(
        ['dict', 'dict', 'spectrum', 'reload', 'reload', 'solution']),
        'decoy_first': st('decoy').random() < 0.35,
        # the same file is first loaded with replacement values for some
        # constructor keywords (an option of the loader); a plain load of
        # the file afterwards owes the stored values
        'replace_first': st('decoy').random() < 0.3,
        # a damaged copy of the file (one listed gas names a profile class
        # this installation does not have) is offered to the loader first
        'damaged_first': st('damage').random() < 0.35,
        'damage_pick': st('damage').randrange(8)}
    o = st('ops')
    ops = [['open', 'w']]
    if cfg['part'] == 'solution':
        from checks import c09
        fc = c09.generate(c.randrange(2**62), tier)['config']
        # (toy models return tau=None, which no output file can hold)
        while fc['sampler'] == 'nestle_real' or \
                fc['model'].get('kind') == 'toy':
            fc = c09.generate(c.randrange(2**62), tier)['config']
        fc['R'] = 1
        cfg['fitcfg'] = fc
        ops += [['store_solution'], ['close']]
        return {'config': cfg, 'ops': ops}
    if cfg['part'] in ('spectrum', 'reload'):
        fam = c.choice(['transmission', 'emission', 'directimage']) \
            if cfg['part'] == 'reload' else c.choice(['transmission',
                                                      'emission'])
        contribs = ['Absorption'] + [x for x in ('CIA', 'Rayleigh',
                                                 'SimpleClouds', 'FlatMie',
                                                 'LeeMie')
                                     if c.random() < 0.35]
        if 'FlatMie' in contribs and 'LeeMie' in contribs:
            contribs.remove(c.choice(['FlatMie', 'LeeMie']))
        mcfg = R.gen_model_cfg(c, family=fam, contribs=contribs)
        mcfg['nlayers'] = c.randint(2, 6)
        mcfg['opac']['ngrid'] = c.randint(12, 24)
        mcfg['clouds_pressure'] = 10 ** c.uniform(1, 5)
        # (FlatMie with an unset top pressure takes log10(-1) and cannot
        # evaluate at all -- C19 ground, not generated here)
        mcfg['flatmie'] = {'mix': 10 ** c.uniform(-12, -8),
                           'bottomP': c.choice([-1, 1e5]),
                           'topP': c.choice([1e1, 1e2])}
        mcfg['leemie'] = {'radius': c.uniform(0.005, 0.05),
                          'q': c.uniform(10, 60),
                          'mix': 10 ** c.uniform(-12, -9),
                          'bottomP': c.choice([-1, 1e5]),
                          'topP': c.choice([-1, 1e2])}
        mcfg['ngauss'] = c.randint(2, 5)
        if fam == 'transmission':
            mcfg['new_path'] = c.random() < 0.3
        if cfg['part'] == 'reload' and c.random() < 0.25:
            # H- continuum: needs H and e- in the chemistry (no opacity data)
            mcfg['contribs'] = mcfg['contribs'] + ['HydrogenIon']
            mcfg['molecules'] += [
                {'name': 'H', 'mix': 10 ** c.uniform(-5, -3), 'inactive': True},
                {'name': 'e-', 'mix': 10 ** c.uniform(-8, -6),
                 'inactive': True}]
            mcfg['opac']['wn'] = [3000.0, 3000.0 * 10 ** c.uniform(0.4, 0.9)]
        if cfg['part'] == 'reload' and c.random() < 0.4:
            # an explicit trace gas without opacity data (inactive)
            mcfg['molecules'].append({'name': c.choice(['N2', 'O2', 'Ar']),
                                      'mix': 10 ** c.uniform(-4, -1),
                                      'inactive': True})
        if cfg['part'] == 'reload':
            # the other built-in gas and temperature profile types
            for m in mcfg['molecules']:
                r = c.random()
                if r < 0.15:
                    m['gas'] = {'kind': 'twopoint',
                                'surface': 10 ** c.uniform(-7, -3),
                                'top': 10 ** c.uniform(-9, -5)}
                elif r < 0.30:
                    m['gas'] = {'kind': 'array', 'values': [
                        10 ** c.uniform(-8, -3)
                        for _ in range(c.randint(2, 5))]}
                elif r < 0.40 and m['name'] == 'H2O':
                    m['gas'] = {'kind': 'power', 'profile_type': 'auto'}
                elif r < 0.46:
                    m['gas'] = {'kind': 'power', 'profile_type': 'auto',
                                'surface': 10 ** c.uniform(-6, -3),
                                'alpha': c.uniform(0.5, 2.5),
                                'beta': 10 ** c.uniform(4, 4.7),
                                'gamma': c.uniform(5, 25)}
                    # coefficients that are exactly zero (legal, and not
                    # "unset")
                    for coef in ('alpha', 'beta', 'gamma'):
                        if c.random() < 0.2:
                            m['gas'][coef] = 0.0
            r = c.random()
            if r < 0.15:
                mcfg['tp'] = {'kind': 'rodgers', 'layers': [
                    c.uniform(600, 2000) for _ in range(mcfg['nlayers'])],
                    'corr': c.uniform(2, 8)}
            elif r < 0.30:
                vals = sorted([c.uniform(600, 2000)
                               for _ in range(c.randint(2, 5))], reverse=True)
                mcfg['tp'] = {'kind': 'tarray', 'values': vals,
                              'reverse': c.random() < 0.4}
                if c.random() < 0.5:
                    mcfg['tp']['p_points'] = sorted(
                        [10 ** c.uniform(0, 6) for _ in vals], reverse=True)
            # every remaining constructor argument of planet, star,
            # temperature profile and chemistry away from its default
            if c.random() < 0.6:
                mcfg['planet'].update(
                    distance=c.uniform(0.02, 3.0), impact=c.uniform(0, 0.9),
                    period=c.uniform(0.5, 30), albedo=c.uniform(0, 0.9),
                    transit_time=c.uniform(1000, 20000))
                mcfg['star'].update(
                    distance=c.uniform(2, 80), magK=c.uniform(4, 14),
                    mass=c.uniform(0.3, 2.0), metallicity=c.uniform(0.2, 3.0))
            if mcfg['tp']['kind'] == 'guillot' and c.random() < 0.6:
                mcfg['tp']['T_int'] = c.uniform(0, 600)
            # values that are exactly zero (legal, and not the defaults)
            if c.random() < 0.3:
                mcfg['planet']['impact'] = 0.0
            if c.random() < 0.3:
                mcfg['planet']['albedo'] = 0.0
            if c.random() < 0.2:
                mcfg['star']['metallicity'] = 0.0
            if mcfg['tp']['kind'] == 'guillot':
                if c.random() < 0.25:
                    mcfg['tp']['T_int'] = 0.0
                if c.random() < 0.25:
                    mcfg['tp']['alpha'] = 0.0
            if mcfg['tp']['kind'] == 'rodgers' and c.random() < 0.5:
                n = mcfg['nlayers']
                mcfg['tp']['cov'] = [[c.uniform(0.05, 1.0) for _ in range(n)]
                                     for _ in range(n)]
            r = c.random()
            if r < 0.15:
                mcfg['fill'] = ['H2']
                mcfg['cia_pairs'] = ['H2-H2']
            elif r < 0.35:
                mcfg['fill'] = ['H2', 'He', 'N2']
                for m in mcfg['molecules']:
                    if m['name'] == 'N2':
                        m['name'] = 'Ar'
                mcfg['ratio'] = [c.uniform(0.05, 0.3), c.uniform(0.001, 0.05)]
        cfg['model'] = mcfg
        cfg['obs'] = S.gen_obs(c, mcfg)
    if cfg['part'] == 'spectrum':
        # one binner object per kind serves every spectrum of the run (as the
        # observation's binner does in a retrieval); some results are computed
        # on sub-ranges of the native grid (same number of points, other
        # spacing)
        nsub = o.randint(5, max(5, mcfg['opac']['ngrid'] - 4))
        for _ in range(o.randint(1, 4)):
            sub = None
            r = o.random()
            if r < 0.4:
                sub = [o.randint(0, mcfg['opac']['ngrid'] - nsub), nsub]
            elif r < 0.6:
                sub = ['warp', o.choice([0.6, 0.8, 1.3, 1.7])]
            elif r < 0.7:
                sub = ['flip']
            ops.append(['store_spectrum', o.choice(['flux', 'flux', 'simple',
                                                    'native', 'lightcurve',
                                                    'flux_desc']),
                        o.choice([1, 3, 6, 1, 3, 6, -2, 0, 2, 4, 5]),
                        'Spectra%d' % len(ops), sub,
                        o.random() < 0.3])
            if o.random() < 0.4:
                ops += [['close'], ['open', 'a']]
    elif cfg['part'] == 'reload':
        if o.random() < 0.4:
            # the model has been evaluated, then parameters were changed, and
            # it is written before the next evaluation
            ops.append(['evaluate_model'])
            for _ in range(o.randint(1, 3)):
                ops.append(['set_model_param', o.randrange(10**6),
                            o.uniform(1.03, 1.3)])
            if fam != 'transmission' and o.random() < 0.6:
                # the number of quadrature points changed after construction
                ops.append(['set_num_gauss', o.randint(2, 7)])
        ops.append(['write_model'])
        if o.random() < 0.5:
            ops += [['close'], ['open', 'a'],
                    ['store', [], 'Output', gen_tree(o)]]
    else:
        groups = [[]]
        for _ in range(o.randint(1, 8 if tier == 'quick' else 20)):
            r = o.random()
            if r < 0.25:
                parent = o.choice(groups)
                name = 'G%d' % len(groups)
                ops.append(['group', parent, name])
                groups.append(parent + [name])
            elif r < 0.85:
                ops.append(['store', o.choice(groups), 'D%dx' % len(ops),
                            gen_tree(o)])
            elif r < 0.89:
                # the writer methods called directly (as component write()
                # methods do), with and without metadata
                lf = gen_leaf(o, 3)
                while lf['t'] not in ('float', 'int', 'npfloat', 'npint', 'str',
                                      'array', 'list', 'strlist'):
                    lf = gen_leaf(o, 3)
                meta = None
                if o.random() < 0.5:
                    meta = {'units': o.choice(['m', 'Pa', 'K']),
                            'scale': o.uniform(0.1, 10),
                            'n': o.randint(0, 9)}
                ops.append(['write_direct', o.choice(groups),
                            'W%dx' % len(ops), lf, meta])
            elif r < 0.93:
                # two results in a row that each hold a large array of the
                # same shape (native spectra of consecutive runs)
                n_ = o.choice([4200, 6000, 9000])
                for _j in range(2):
                    ops.append(['store', o.choice(groups), 'D%dx' % len(ops),
                                [['native', {'t': 'array', 'dtype': 'f8',
                                             'shape': [n_],
                                             'seed': o.randrange(2**31),
                                             'nan': False, 'inf': False}],
                                 ['n', {'t': 'int', 'v': _j}]]])
            else:
                ops += [['close'], ['open', 'a']]
                groups = [[]]
                prev = [op for op in ops if op[0] == 'store' and not op[1]]
                if prev and o.random() < 0.5:
                    # a name of an earlier phase is stored again
                    src = o.choice(prev)
                    ops.append(['restore', [], src[2],
                                retype_tree(o, src[3]) if o.random() < 0.7
                                else gen_tree(o)])
    ops.append(['close'])
    return {'config': cfg, 'ops': ops}


# --------------------------------------------------------------------------
# execution
# --------------------------------------------------------------------------

class Stop(Exception):
    pass


def plan_ops(ops):
    """Ops that are applicable given the open/close state and the groups
    created in the *current* phase (the output API cannot re-open a group of an
    earlier phase).  Used by the executor and by the read-back alike, so that
    shrunk op lists stay meaningful."""
    out = []
    is_open = False
    groups = set()
    all_groups = set()
    names = set()
    stored = set()
    for op in ops:
        k = op[0]
        if k == 'open':
            if is_open:
                continue
            is_open = True
            groups = {()}
            out.append(op)
        elif k == 'close':
            if is_open:
                out.append(op)
            is_open = False
        elif not is_open:
            continue
        elif k == 'group':
            parent = tuple(op[1])
            full = parent + (op[2],)
            if parent in groups and full not in all_groups:
                groups.add(full)
                all_groups.add(full)
                out.append(op)
        elif k == 'store':
            parent = tuple(op[1])
            full = parent + (op[2],)
            if parent in groups and full not in all_groups:
                all_groups.add(full)
                stored.add(full)
                out.append(op)
        elif k == 'write_direct':
            parent = tuple(op[1])
            full = parent + (op[2],)
            if parent in groups and full not in all_groups:
                all_groups.add(full)
                out.append(op)
        elif k == 'restore':
            parent = tuple(op[1])
            full = parent + (op[2],)
            if parent in groups and full in stored:
                out.append(op)
        elif k == 'store_solution':
            if ('Output',) not in all_groups:
                all_groups.add(('Output',))
                out.append(op)
        elif k in ('evaluate_model', 'set_model_param', 'set_num_gauss'):
            out.append(op)
        elif k in ('store_spectrum', 'write_model'):
            nm = op[3] if k == 'store_spectrum' else 'ModelParameters'
            if (nm,) not in all_groups:
                all_groups.add((nm,))
                out.append(op)
    if is_open:
        out.append(['close'])
    if out and out[0][0] == 'open' and out[0][1] != 'w':
        out[0] = ['open', 'w']
    return out


def _arr_equal(a, b):
    a = np.asarray(a)
    b = np.asarray(b)
    if a.shape != b.shape:
        return False
    if a.dtype.kind == 'f' or b.dtype.kind == 'f':
        return bool(np.array_equal(a, b, equal_nan=True))
    return bool(np.array_equal(a, b))


def _decode(x):
    if isinstance(x, bytes):
        return x.decode('utf-8')
    if isinstance(x, np.ndarray) and x.shape == ():
        return _decode(x[()])
    return x


def compare_leaf(viol, path, leaf, node, faults):
    """node: the h5py object found (or None)."""
    import h5py
    t = leaf['t']
    where = '/'.join(path)
    if node is None:
        viol('missing', t, '%s (%s) is not in the file' % (where, t))
        return
    if t in ('dict',):
        if not isinstance(node, h5py.Group):
            viol('wrong-kind', t, '%s should be a group' % where)
            return
        compare_tree(viol, path, leaf['v'], node, faults)
        return
    if t == 'dictlist':
        viol_if_not_group = False
        return
    if isinstance(node, h5py.Group):
        viol('wrong-kind', t, '%s should be a dataset' % where)
        return
    val = node[()]
    want = mat_leaf(leaf)
    if t in ('float', 'npfloat', 'int', 'npint', 'bool'):
        kind = np.asarray(val).dtype.kind
        wkind = {'float': 'f', 'npfloat': 'f', 'int': 'i', 'npint': 'i',
                 'bool': 'b'}[t]
        if np.asarray(val).shape != () or not _arr_equal(val, want):
            viol('value-changed', t, '%s: stored %r, read back %r'
                 % (where, want, val))
        elif kind != wkind and not (wkind == 'i' and kind == 'u'):
            viol('type-changed', t, '%s: %s stored, dtype kind %r read back'
                 % (where, t, kind))
    elif t == 'str':
        got = _decode(val)
        if got != want:
            viol('value-changed', 'str' if len(want) <= 64 else 'str:long',
                 '%s: stored %r, read back %r' % (where, want, got))
    elif t in ('array', 'list', 'tuple', 'list2d'):
        w = np.array(want) if t != 'array' else want
        if not _arr_equal(val, w):
            viol('value-changed', t, '%s: array differs after read-back '
                 '(shape %s vs %s)' % (where, np.asarray(val).shape, w.shape))
        elif np.asarray(val).dtype.kind != w.dtype.kind:
            viol('type-changed', t, '%s: dtype kind %s stored, %s read back'
                 % (where, w.dtype.kind, np.asarray(val).dtype.kind))
    elif t == 'strlist':
        got = [_decode(x) for x in np.asarray(val).ravel()]
        if got != list(want):
            long_ = any(len(s) > 64 for s in want)
            viol('value-changed', 'strlist:long' if long_ else 'strlist',
                 '%s: stored %r, read back %r' % (where, want, got))


def compare_tree(viol, path, tree, group, faults):
    for k, leaf in tree:
        name = str(k)
        if leaf['t'] == 'alias':
            leaf = resolve_alias(tree, leaf)
            if leaf is None:
                continue
        if leaf['t'] == 'dictlist':
            for i, sub in enumerate(leaf['v']):
                node = group.get('%s%d' % (name, i))
                compare_leaf(viol, path + ['%s%d' % (name, i)],
                             {'t': 'dict', 'v': sub}, node, faults)
            continue
        if leaf['t'] == 'raggedobj':
            for i, sub in enumerate(leaf['v']):
                if sub['t'] in ('dict',):
                    compare_leaf(viol, path + ['%s%d' % (name, i)], sub,
                                 group.get('%s%d' % (name, i)), faults)
                else:
                    compare_tree(viol, path, [['%s%d' % (name, i), sub]],
                                 group, faults)
            continue
        if leaf['t'] == 'ragged' and len(set(len(r) for r in leaf['v'])) == 1:
            compare_leaf(viol, path + [name], {'t': 'list2d', 'v': leaf['v']},
                         group.get(name), faults)
            continue
        if leaf['t'] == 'ragged':
            for i, row in enumerate(leaf['v']):
                node = group.get('%s%d' % (name, i))
                compare_leaf(viol, path + ['%s%d' % (name, i)],
                             {'t': 'list', 'v': row}, node, faults)
            continue
        compare_leaf(viol, path + [name], leaf, group.get(name), faults)


def count_leaf_types(tree, acc, depth=0):
    for k, leaf in tree:
        acc.add((leaf['t'], depth))
        if leaf['t'] == 'alias':
            continue
        if leaf['t'] == 'dict':
            count_leaf_types(leaf['v'], acc, depth + 1)
        elif leaf['t'] == 'dictlist':
            for sub in leaf['v']:
                count_leaf_types(sub, acc, depth + 1)


def execute(case, keep_text=False):
    warmup()
    cfg = case['config']
    ops = plan_ops(case['ops'])
    out = Outcome()
    log = EventLog(keep_text)
    Rn = cfg['R']
    from taurex.output.hdf5 import HDF5Output
    from taurex import OutputSize

    def viol(cls, key, detail):
        out.violations.append(Violation(cls, key, detail))

    scratch = os.path.join(os.environ.get('VERIF_RUN_SCRATCH', '/dev/shm'),
                           'c16')
    shutil.rmtree(scratch, ignore_errors=True)
    os.makedirs(scratch)
    fname = os.path.join(scratch, 'out.h5')
    has_model = cfg['part'] in ('spectrum', 'reload')
    if has_model:
        R.install_opacities(cfg['model'])
    if cfg['part'] == 'solution':
        Rn = 1
    fitres = {}
    if cfg['part'] == 'solution':
        from checks import c09
        c09.execute({'config': cfg['fitcfg'], 'ops': []},
                    after_fit=lambda **kw: fitres.update(kw))
        w = fitres.get('world')
        if w is None or w.errors[0] is not None or w.deadlock or \
                fitres['solutions'][0] is None:
            # the fit itself failed: C09's business, nothing to store here
            out.bump('probes', 'fit_failed_before_store')
            out.digest = log.digest()
            out.signature = 'fitfail'
            shutil.rmtree(scratch, ignore_errors=True)
            return out
        out.bump('probes', 'solution_store_run')
    restore_outcome = {}       # full name -> 'accepted' | 'refused'
    spectra_written = {}       # group name -> (binner kind, size, native result)
    written_model = [None]
    types_seen = set()
    for op in ops:
        if op[0] == 'store':
            count_leaf_types(op[3], types_seen)

    def body(r):
        o = None
        groups = {}
        model = None
        obs = None
        binners = {}
        if has_model:
            model = R.build_model(cfg['model'], install=False)
            obs = S.build_obs(cfg['obs'])
        for op in ops:
            k = op[0]
            if k == 'open':
                o = HDF5Output(fname, append=(op[1] == 'a'))
                o.open()
                groups = {}
            elif k == 'close':
                if o is not None:
                    o.close()
                o = None
            elif o is None:
                continue
            elif k == 'group':
                parent = tuple(op[1])
                p = o if not parent else groups.get(parent)
                if p is None:
                    continue
                groups[parent + (op[2],)] = p.create_group(op[2])
            elif k == 'store':
                parent = tuple(op[1])
                p = o if not parent else groups.get(parent)
                if p is None:
                    continue
                p.store_dictionary(materialise(op[3]), group_name=op[2])
            elif k == 'write_direct':
                parent = tuple(op[1])
                p = o if not parent else groups.get(parent)
                if p is None:
                    continue
                if not parent:
                    # the file object itself has no write_* methods: a group
                    # of its own
                    p = o.create_group('direct_' + op[2])
                lf, meta = op[3], op[4]
                v = mat_leaf(lf)
                t_ = lf['t']
                if t_ == 'array':
                    p.write_array(op[2], v, metadata=meta)
                elif t_ == 'list':
                    p.write_list(op[2], v, metadata=meta)
                elif t_ == 'str':
                    p.write_string(op[2], v, metadata=meta)
                elif t_ == 'strlist':
                    p.write_string_array(op[2], v, metadata=meta)
                else:
                    p.write_scalar(op[2], v, metadata=meta)
            elif k == 'restore':
                parent = tuple(op[1])
                p = o if not parent else groups.get(parent)
                if p is None:
                    continue
                # a name that already exists: either refused (file unchanged)
                # or accepted (file holds the new values)
                try:
                    p.store_dictionary(materialise(op[3]), group_name=op[2])
                    verdict = 'accepted'
                except Exception:
                    verdict = 'refused'
                if r == 0:
                    restore_outcome[parent + (op[2],)] = verdict
            elif k == 'store_spectrum':
                if op[1] not in binners:
                    binners[op[1]] = make_binner(op[1], obs)
                binner = binners[op[1]]
                sub = op[4] if len(op) > 4 else None
                if sub and sub[0] == 'warp':
                    # a result on another native grid with the same number of
                    # points and the same end points (e.g. another spacing)
                    res = model.model()
                    g = np.array(res[0], dtype=float)
                    ga = g[0] + (g[-1] - g[0]) * \
                        ((g - g[0]) / (g[-1] - g[0])) ** sub[1]
                    ga[0], ga[-1] = g[0], g[-1]
                    res = (ga,) + tuple(res[1:])
                elif sub and sub[0] == 'flip':
                    # the same result handed over in descending wavenumber
                    # order (binners sort what they are given)
                    res = model.model()
                    res = (np.array(res[0])[::-1].copy(),
                           np.array(res[1])[::-1].copy(),
                           np.array(res[2])[:, ::-1].copy()) + tuple(res[3:])
                elif sub:
                    g = S.native_grid(cfg['model'])
                    res = model.model(wngrid=g[sub[0]:sub[0] + sub[1]])
                else:
                    res = model.model()
                # sizes reach the binners as enum members or as plain
                # integers (the program itself passes output_size-3)
                osz = OutputSize(op[2]) if op[2] in (1, 3, 6) else op[2]
                lc_parts = None
                if op[1] == 'lightcurve':
                    # the result tuple of a light-curve model (pylightcurve is
                    # absent, so the model class cannot be imported): light
                    # curve, optical depth, and (native grid, native spectrum,
                    # spectrum binned to the observation, extras)
                    fb = obs.create_binner()
                    ng_ = np.array(res[0], dtype=float)
                    bw_, bs_ = fb.bindown(ng_, np.array(res[1]))[:2]
                    lc_ = np.linspace(1.0, 0.99, 3 * len(bw_))
                    lc_parts = [np.array(bw_), lc_, np.array(res[2]), ng_,
                                np.array(res[1]), np.array(bs_)]
                    res = (lc_parts[0], lc_, res[2],
                           (ng_, res[1], bs_, None))
                spec = binner.generate_spectrum_output(res, output_size=osz)
                if r == 0 and lc_parts is not None:
                    spectra_written[op[3]] = ('lightcurve', op[2], lc_parts)
                    out.bump('probes', 'lightcurve_result_stored')
                elif r == 0:
                    spectra_written[op[3]] = (
                        op[1] + (':warped' if sub and sub[0] in ('warp', 'flip')
                                 else ''),
                        op[2], [np.array(res[0]), np.array(res[1]),
                                np.array(res[2])])
                if len(op) > 5 and op[5]:
                    # as the program does: the result dictionary is built,
                    # the model is evaluated again (contributions, the next
                    # solution), and only then the dictionary is written
                    model.model_contrib()
                    model.model(wngrid=S.native_grid(cfg['model'])[1:-1])
                    if r == 0:
                        out.bump('probes', 'written_after_later_evaluations')
                o.store_dictionary(spec, group_name=op[3])
            elif k == 'store_solution':
                sol = fitres['solutions'][0]
                opt = fitres['opts'][0]
                outg = o.create_group('Output')
                outg.store_dictionary(sol, group_name='Solutions')
                opt.write(o)
                opt._observed.write(o.create_group('Observed'))
            elif k == 'evaluate_model':
                model.model()
            elif k == 'set_model_param':
                names_ = sorted(n for n, t in model.fittingParameters.items()
                                if isinstance(t[2](), (int, float)) and
                                t[2]() > 0 and not n.startswith('atm_'))
                if names_:
                    n_ = names_[op[1] % len(names_)]
                    t_ = model.fittingParameters[n_]
                    t_[3](t_[2]() * op[2])
                    if r == 0:
                        out.bump('probes', 'parameter_changed_before_write')
            elif k == 'set_num_gauss':
                if hasattr(model, 'set_num_gauss'):
                    model.set_num_gauss(op[1])
                    if r == 0:
                        out.bump('probes', 'quadrature_changed_before_write')
            elif k == 'write_model':
                model.write(o)
                if r == 0:
                    written_model[0] = model
        if o is not None:
            o.close()
        return True

    def make_binner(kind, obs):
        if kind == 'flux':
            return obs.create_binner()
        if kind == 'flux_desc':
            # the same bins handed over in descending wavenumber order (a
            # wavelength-ordered list turned into wavenumbers); the binner
            # sorts them
            from taurex.binning import FluxBinner
            return FluxBinner(
                wngrid=np.array(obs.wavenumberGrid)[::-1].copy(),
                wngrid_width=np.array(obs.binWidths)[::-1].copy())
        if kind == 'simple':
            from taurex.binning import SimpleBinner
            return SimpleBinner(wngrid=np.array(obs.wavenumberGrid))
        if kind == 'lightcurve':
            from taurex.binning.lightcurvebinner import LightcurveBinner
            return LightcurveBinner()
        from taurex.binning import NativeBinner
        return NativeBinner()

    world = SimWorld(Rn, perms=[], log=None, cap=2000)
    world.run(body)
    import taurex.log
    taurex.log.disableLogging()
    out.bump('steps', 'ops', len(ops))
    out.bump('steps', 'rank_histories', Rn)
    if Rn > 1:
        out.bump('faults', 'non_master_ranks', Rn - 1)
    nphase = sum(1 for op in ops if op[0] == 'open')
    if nphase > 1:
        out.bump('faults', 'reopen_append', nphase - 1)
        out.bump('probes', 'append_phase')
    out.signature = '%x' % H(cfg['part'], tuple(sorted(types_seen)), nphase, Rn,
                             tuple((op[0], op[1], op[2]) for op in ops
                                   if op[0] == 'store_spectrum'),
                             tuple(cfg.get('model', {}).get('contribs', [])),
                             cfg.get('model', {}).get('family'))
    out.nontrivial = True
    try:
        for r in range(Rn):
            if world.errors[r] is not None:
                e, tb = world.errors[r]
                frames = tb.splitlines()
                kinds = sorted(t for t, d in types_seen)
                key = '%s:%s' % (cfg['part'], type(e).__name__)
                if r > 0:
                    key += ':non-master-rank'
                viol('store-raised', key, 'rank %d of %d: %r\n%s'
                     % (r, Rn, e, tb[-1200:]))
                raise Stop()
        if world.deadlock:
            viol('deadlock', 'collectives', world.deadlock)
            raise Stop()
        import h5py
        with h5py.File(fname, 'r') as f:
            # ---- generic read-back against the reference map
            groups = {(): f}
            for op in ops:
                if op[0] == 'group':
                    par = groups.get(tuple(op[1]))
                    node = par.get(op[2]) if par is not None else None
                    if node is None:
                        viol('missing', 'group', '/'.join(op[1] + [op[2]]))
                        continue
                    groups[tuple(op[1]) + (op[2],)] = node
                elif op[0] == 'write_direct':
                    par = groups.get(tuple(op[1]))
                    if par is None:
                        continue
                    if not op[1]:
                        par = par.get('direct_' + op[2])
                        if par is None:
                            viol('missing', 'group', 'direct_' + op[2])
                            continue
                    node = par.get(op[2])
                    lf = op[3]
                    if lf['t'] == 'list' and node is None and False:
                        pass
                    compare_leaf(viol, list(op[1]) + [op[2]], lf, node, None)
                    if op[4] and node is not None:
                        out.bump('probes', 'metadata_written')
                        for mk, mv in op[4].items():
                            if mk not in node.attrs or \
                                    _decode(node.attrs[mk]) != mv:
                                viol('value-changed', 'metadata',
                                     '%s: attribute %s stored as %r, read '
                                     'back %r' % (op[2], mk, mv,
                                                  node.attrs.get(mk)))
                elif op[0] == 'store':
                    par = groups.get(tuple(op[1]))
                    if par is None:
                        continue
                    node = par.get(op[2])
                    full = tuple(op[1]) + (op[2],)
                    tree = op[3]
                    for op2 in ops:
                        if op2[0] == 'restore' and \
                                tuple(op2[1]) + (op2[2],) == full and \
                                restore_outcome.get(full) == 'accepted':
                            tree = op2[3]
                    if full in restore_outcome:
                        out.bump('probes', 'stored_again_'
                                 + restore_outcome[full])
                    compare_leaf(viol, list(op[1]) + [op[2]],
                                 {'t': 'dict', 'v': tree}, node, None)
            if fitres:
                sol = fitres['solutions'][0]
                opt = fitres['opts'][0]
                node = f.get('Output/Solutions')
                compare_leaf(viol, ['Output', 'Solutions'],
                             {'t': 'dict', 'v': tree_from_object(sol)}, node,
                             None)
                og = f.get('Optimizer')
                if og is None:
                    viol('missing', 'group', 'Optimizer')
                else:
                    names = [_decode(x) for x in
                             np.asarray(og['fit_parameter_names'][()]).ravel()]
                    if names != list(opt.fit_names):
                        viol('value-changed', 'optimizer:fit_parameter_names',
                             '%s vs %s' % (names, list(opt.fit_names)))
                obs_g = f.get('Observed')
                if obs_g is None:
                    viol('missing', 'group', 'Observed')
                else:
                    for key, want in (('spectrum', opt._observed.spectrum),
                                      ('errorbars', opt._observed.errorBar),
                                      ('wlgrid', opt._observed.wavelengthGrid),
                                      ('binwidths', opt._observed.binWidths)):
                        if key not in obs_g or not _arr_equal(obs_g[key][()],
                                                              want):
                            viol('value-changed', 'observed:' + key,
                                 'stored observation differs')
            # ---- stored spectra describe themselves consistently
            for gname, (bkind, size, res) in spectra_written.items():
                g = f.get(gname)
                if g is None:
                    viol('missing', 'spectrum-group', gname)
                    continue
                check_spectrum_group(viol, out, g, bkind, size, res, cfg)
        # ---- reload
        if written_model[0] is not None:
            check_reload(viol, out, fname, written_model[0], cfg)
    except Stop:
        pass
    finally:
        shutil.rmtree(scratch, ignore_errors=True)
    log.add('store', 'result', [v.to_json() for v in out.violations])
    log.add('store', 'ops', ops)
    out.digest = log.digest()
    return out


def check_lightcurve_group(viol, out, g, size, parts):
    bw, lc, tau, ng, native, binned = parts
    keys = set(g.keys())

    def arr(k):
        return np.asarray(g[k][()], dtype=float)
    for k, want in (('native_wngrid', ng), ('native_spectrum', native),
                    ('binned_wngrid', bw), ('binned_spectrum', binned),
                    ('lightcurve', lc), ('native_wlgrid', 10000.0 / ng),
                    ('binned_wlgrid', 10000.0 / bw)):
        if k not in keys:
            viol('spectrum', 'missing:' + k, 'light-curve binner')
            return
        a = arr(k)
        if a.shape != np.shape(want) or not np.allclose(a, want, rtol=1e-13,
                                                        atol=0):
            viol('spectrum', 'lightcurve:' + k, 'stored %s is not what the '
                 'light-curve result holds' % k)
    for k, present in (('binned_tau', size > 1), ('native_tau', size > 3)):
        if (k in keys) != present:
            viol('spectrum', 'tau-presence:' + k, 'output size %d, '
                 'light-curve binner: %s present=%s' % (size, k, k in keys))
        elif present and not np.array_equal(arr(k), tau):
            viol('spectrum', 'lightcurve:' + k, 'differs from the result')
    out.bump('steps', 'spectra_checked')


def check_spectrum_group(viol, out, g, bkind, size, res, cfg):
    if bkind == 'lightcurve':
        return check_lightcurve_group(viol, out, g, size, res)
    native_wn, native_y, native_tau = res
    warped = bkind.endswith(':warped')
    bkind = bkind.split(':')[0]
    if bkind == 'flux_desc':
        bkind = 'flux'
    keys = set(g.keys())

    def arr(k):
        return np.asarray(g[k][()], dtype=float)

    for k in ('native_wngrid', 'native_wlgrid', 'native_spectrum'):
        if k not in keys:
            viol('spectrum', 'missing:' + k, 'binner %s size %d' % (bkind, size))
            return
    if not np.array_equal(arr('native_wngrid'), native_wn) or \
            not np.array_equal(arr('native_spectrum'), native_y):
        viol('spectrum', 'native', 'stored native grid/spectrum differ from '
             'the model output')
    if not np.allclose(arr('native_wlgrid'), 10000.0 / arr('native_wngrid'),
                       rtol=1e-13, atol=0):
        viol('spectrum', 'native_wlgrid', 'is not 10000/native_wngrid')
    want_native_tau = size > 3
    want_binned_tau = size > 1 and bkind != 'native'
    if ('native_tau' in keys) != want_native_tau:
        viol('spectrum', 'tau-presence:native_tau',
             'output size %d, binner %s: native_tau present=%s'
             % (size, bkind, 'native_tau' in keys))
    if bkind != 'native' and ('binned_tau' in keys) != want_binned_tau:
        viol('spectrum', 'tau-presence:binned_tau',
             'output size %d, binner %s: binned_tau present=%s'
             % (size, bkind, 'binned_tau' in keys))
    if 'native_tau' in keys and not np.array_equal(arr('native_tau'),
                                                   native_tau):
        viol('spectrum', 'native_tau', 'differs from the model output')
    if bkind == 'native':
        out.bump('steps', 'spectra_checked')
        return
    for k in ('binned_wngrid', 'binned_wlgrid', 'binned_wnwidth',
              'binned_wlwidth', 'binned_spectrum'):
        if k not in keys:
            viol('spectrum', 'missing:' + k, 'binner %s' % bkind)
            return
    bw = arr('binned_wngrid')
    if not np.allclose(arr('binned_wlgrid'), 10000.0 / bw, rtol=1e-13, atol=0):
        viol('spectrum', 'binned_wlgrid', 'is not 10000/binned_wngrid')
    want = 10000.0 * arr('binned_wnwidth') / bw ** 2
    if not np.allclose(arr('binned_wlwidth'), want, rtol=1e-12, atol=0):
        viol('spectrum', 'binned_wlwidth:' + bkind,
             'binned wavelength widths %s are not the wavenumber widths '
             'converted at the bin centre %s'
             % (arr('binned_wlwidth')[:3], want[:3]))
    # binned spectrum = the binner applied to the stored native spectrum
    obs = S.build_obs(cfg['obs'])
    if bkind == 'flux':
        fresh = obs.create_binner()
        nw = arr('native_wngrid')
        rb = refs.ref_bin(list(nw), list(arr('native_spectrum')),
                          list(bw), list(arr('binned_wnwidth')))
        # bins strictly inside the stored native range (sub-range results leave
        # some observation bins partly or wholly outside: C05 ground)
        nb = refs.native_bins(list(nw))
        inside = np.array([(c - w / 2 >= nb[1][0]) and (c + w / 2 <= nb[-2][1])
                           and r is not None
                           for c, w, r in zip(bw, arr('binned_wnwidth'), rb)])
        rbv = np.array([r if r is not None else np.nan for r in rb])
        if warped:
            # the independent overlap-mean reference is only calibrated on
            # regularly spaced native grids (C05 ground otherwise)
            inside[:] = False
            out.bump('probes', 'same_length_other_spacing')
        if inside.any():
            out.bump('steps', 'interior_bins_checked', int(inside.sum()))
        if inside.any() and not np.allclose(arr('binned_spectrum')[inside],
                                            rbv[inside], rtol=1e-11, atol=0):
            viol('spectrum', 'binned_spectrum:reference', 'stored binned '
                 'spectrum is not the overlap-weighted mean of the stored '
                 'native spectrum')
    else:
        from taurex.binning import SimpleBinner
        fresh = SimpleBinner(wngrid=np.array(obs.wavenumberGrid))
    again = fresh.bindown(arr('native_wngrid'), arr('native_spectrum'))[1]
    if not np.allclose(arr('binned_spectrum'), again, rtol=1e-12, atol=0,
                       equal_nan=True):
        viol('spectrum', 'binned_spectrum:' + bkind, 'stored binned spectrum '
             'is not the binner applied to the stored native spectrum')
    out.bump('steps', 'spectra_checked')


def _ctor_values(obj):
    """Constructor keywords recoverable from public state, per class."""
    n = type(obj).__name__
    if n == 'Isothermal':
        return {'T': obj._iso_temp}
    if n == 'Guillot2010':
        return {'T_irr': obj.T_irr, 'kappa_irr': obj.kappa_ir,
                'kappa_v1': obj.kappa_v1, 'kappa_v2': obj.kappa_v2,
                'alpha': obj.alpha, 'T_int': obj.T_int}
    if n == 'Rodgers2000':
        cov = obj._covariance
        if cov is None:
            cov = obj.gen_covariance()
        return {'layers': tuple(float(x) for x in obj._T_layers),
                'corr': obj._tp_corr_length,
                'cov': tuple(float(x) for x in np.ravel(cov))}
    if n == 'TemperatureArray':
        pp = getattr(obj, '_p_profile', None)
        return {'values': tuple(float(x) for x in obj._tp_profile),
                'p_points': () if pp is None else tuple(float(x) for x in pp)}
    if n == 'Planet':
        return {'mass': obj.mass, 'radius': obj.radius,
                'distance': obj._distance, 'impact': obj._impact,
                'period': obj._orbit_period, 'albedo': obj._albedo,
                'transit_time': obj._transit_time}
    if n == 'BlackbodyStar':
        return {'temperature': obj.temperature, 'radius': obj.radius,
                'distance': obj.distance, 'magnitudeK': obj.magnitudeK,
                'mass': obj._mass, 'metallicity': obj._metallicity}
    if n == 'SimplePressureProfile':
        return {'nlayers': obj._nlayers, 'pmin': obj._atm_min_pressure,
                'pmax': obj._atm_max_pressure}
    if n == 'SimpleCloudsContribution':
        return {'clouds_pressure': obj._cloud_pressure}
    if n == 'FlatMieContribution':
        return {'mix': obj._mie_mix, 'bottom': obj._mie_bottom_pressure,
                'top': obj._mie_top_pressure}
    if n == 'LeeMieContribution':
        return {'radius': obj._mie_radius, 'q': obj._mie_q,
                'mix': obj._mie_mix, 'bottom': obj._mie_bottom_pressure,
                'top': obj._mie_top_pressure}
    if n == 'CIAContribution':
        return {'pairs': tuple(obj.ciaPairs)}
    return {}


def check_damaged_copy(viol, out, fname, cfg):
    """Fault: one gas entry of a copy of the model file names a profile class
    that does not exist.  The loader may refuse the file; if it hands a model
    back, every gas the file lists must be in it (never a model that silently
    lacks a component the file describes)."""
    import shutil
    import h5py
    from taurex.util.hdf5 import taurex_hdf5_to_model
    dfn = fname + '.damaged.h5'
    shutil.copyfile(fname, dfn)
    try:
        listed, victim = [], None
        with h5py.File(dfn, 'r+') as f:
            found = []
            f.visititems(lambda n, o_: found.append(n)
                         if n.split('/')[-1] == 'Chemistry' and
                         isinstance(o_, h5py.Group) and 'active_gases' in o_
                         else None)
            if not found:
                out.bump('probes', 'no_chemistry_group_to_damage')
                return
            g = f[found[0]]

            def names(ds):
                return [x.decode() if isinstance(x, bytes) else str(x)
                        for x in np.ravel(g[ds][()])] if ds in g else []
            listed = names('active_gases') + names('inactive_gases')
            cands = [m_ for m_ in listed if m_ in g and
                     isinstance(g[m_], h5py.Group) and 'gas_type' in g[m_]]
            if not cands:
                out.bump('probes', 'no_gas_entry_to_damage')
                return
            victim = cands[cfg.get('damage_pick', 0) % len(cands)]
            del g[victim]['gas_type']
            g[victim]['gas_type'] = 'NoSuchGasProfileClass'
        out.bump('faults', 'model_file_with_unknown_gas_class')
        try:
            md = taurex_hdf5_to_model(dfn)
        except Exception:
            out.bump('probes', 'damaged_model_file_refused')
            return
        try:
            have = list(md.chemistry.activeGases) + \
                list(md.chemistry.inactiveGases)
        except Exception:
            out.bump('probes', 'damaged_model_not_inspectable')
            return
        missing = [m_ for m_ in listed if m_ not in have]
        if missing:
            viol('reload', 'damaged-file-accepted',
                 'a file whose entry for %s names an unknown profile class '
                 'was loaded without error into a model lacking %s (file '
                 'lists %s, model has %s)' % (victim, missing, listed, have))
    finally:
        try:
            os.remove(dfn)
        except OSError:
            pass


def check_reload(viol, out, fname, model, cfg):
    from taurex.util.hdf5 import taurex_hdf5_to_model
    if cfg.get('decoy_first'):
        # another model file is loaded in the same process first: one whose
        # components carry every optional keyword (nothing of it may stick)
        import copy
        from taurex.output.hdf5 import HDF5Output
        dc = copy.deepcopy(cfg['model'])
        dc['tp'] = {'kind': 'tarray', 'values': [1700.0, 1200.0, 800.0],
                    'p_points': [1e5, 1e3, 1e1]}
        for m_ in dc['molecules']:
            if not m_.get('inactive'):
                m_['gas'] = {'kind': 'power', 'profile_type': 'auto',
                             'surface': 1e-5, 'alpha': 1.5, 'beta': 2e4,
                             'gamma': 10.0}
                break
        try:
            dm = R.build_model(dc, install=False)
            dfn = fname + '.decoy.h5'
            with HDF5Output(dfn) as o_:
                dm.write(o_)
            taurex_hdf5_to_model(dfn).build()
            os.remove(dfn)
            out.bump('probes', 'another_file_loaded_first')
        except Exception:
            out.bump('probes', 'decoy_failed')
    if cfg.get('replace_first'):
        rd = {'T': 1234.5, 'clouds_pressure': 3210.0, 'planet_mass': 0.77,
              'planet_radius': 0.91, 'temperature': 4321.0, 'radius': 0.83,
              'T_irr': 1111.0, 'cia_pairs': ['H2-H2'],
              'mix_ratio': 1.5e-6, 'atm_min_pressure': 1.0,
              'lee_mie_radius': 0.02, 'flat_mix_ratio': 1e-12}
        try:
            taurex_hdf5_to_model(fname, replacement_dict=rd)
            out.bump('probes', 'loaded_with_replacements_first')
        except Exception:
            out.bump('probes', 'replacement_load_failed')
    if cfg.get('damaged_first'):
        check_damaged_copy(viol, out, fname, cfg)
    try:
        m2 = taurex_hdf5_to_model(fname)
        m2.build()
        r2 = m2.model()
    except Exception as e:     # noqa
        import traceback
        tb = traceback.format_exc()
        import re
        short = re.sub(r'[^A-Za-z_. ]', '', str(e))[:40].strip()
        viol('reload-raised', '%s:%s' % (type(e).__name__, short),
             'rebuilding the model from the file raised %r\n%s'
             % (e, tb[-900:]))
        return
    out.bump('steps', 'reloads')
    out.bump('probes', 'reload_run')
    r1 = model.model()
    if type(m2) is not type(model):
        viol('reload', 'model-type', '%s vs %s' % (type(m2).__name__,
                                                   type(model).__name__))
        return
    comps = [('planet', model.planet, m2.planet), ('star', model.star, m2.star),
             ('pressure', model.pressure, m2.pressure),
             ('temperature', model.temperature, m2.temperature),
             ('chemistry', model.chemistry, m2.chemistry)]
    c1 = sorted(model.contribution_list, key=lambda c: type(c).__name__)
    c2 = sorted(m2.contribution_list, key=lambda c: type(c).__name__)
    if [type(c).__name__ for c in c1] != [type(c).__name__ for c in c2]:
        viol('reload', 'contributions', '%s vs %s'
             % ([type(c).__name__ for c in c1], [type(c).__name__ for c in c2]))
        return
    comps += [('contrib', a, b) for a, b in zip(c1, c2)]
    for name, a, b in comps:
        if type(a) is not type(b):
            viol('reload', 'component-type:' + name, '%s vs %s'
                 % (type(a).__name__, type(b).__name__))
            continue
        try:
            va, vb = _ctor_values(a), _ctor_values(b)
        except AttributeError:
            # internal attribute names are not part of the property: without
            # them only the spectrum comparison below decides
            out.bump('probes', 'component_state_not_readable')
            continue
        for k in va:
            x, y = va[k], vb[k]
            same = (x == y) if isinstance(x, tuple) else \
                abs(float(x) - float(y)) <= 1e-12 * max(abs(float(x)), 1e-300)
            if not same:
                viol('reload', 'param:%s.%s' % (type(a).__name__, k),
                     '%r written, %r after reload' % (x, y))
    def gas_key(g):
        n = type(g).__name__
        if n == 'ConstantGas':
            v = (float(g._mix_ratio),)
        elif n == 'TwoPointGas':
            v = (float(g._mix_surface), float(g._mix_top))
        elif n == 'ArrayGas':
            v = tuple(float(x) for x in g._mix_ratio_array)
        elif n == 'PowerGas':
            v = tuple(None if x is None else float(x) for x in
                      (g._mix_surface, g._alpha, g._beta, g._gamma)) + \
                (g._profile_type,)
        else:
            v = ()
        return (g.molecule, n, v)
    try:
        g1 = sorted((gas_key(g) for g in model.chemistry._gases), key=repr)
        g2 = sorted((gas_key(g) for g in m2.chemistry._gases), key=repr)
        fill1 = (list(model.chemistry._fill_gases),
                 np.ravel(model.chemistry._fill_ratio))
        fill2 = (list(m2.chemistry._fill_gases),
                 np.ravel(m2.chemistry._fill_ratio))
    except AttributeError:
        out.bump('probes', 'component_state_not_readable')
        g1 = g2 = fill1 = fill2 = None
    if g1 != g2:
        viol('reload', 'gases', '%s vs %s' % (g1, g2))
    if fill1 is not None and (
            fill1[0] != fill2[0] or fill1[1].shape != fill2[1].shape or
            not np.allclose(fill1[1], fill2[1], rtol=1e-12)):
        viol('reload', 'fill-gases', '%s %s vs %s %s'
             % (fill1[0], fill1[1], fill2[0], fill2[1]))
    for attr, nm in (('new_method', 'new_path_method'), ('_ngauss', 'ngauss')):
        if hasattr(model, attr) and getattr(model, attr) != getattr(m2, attr,
                                                                    None):
            viol('reload', 'param:model.' + nm, '%r written, %r after reload'
                 % (getattr(model, attr), getattr(m2, attr, None)))
    # The loader adds contributions in the file's (alphabetical) group order,
    # which may differ from the writer's add order; the licensed exp(-10)
    # saturation cut-off makes the spectrum depend on that order at the 1e-10
    # level.  Compare with a fresh model built from the same configuration
    # with the contributions added in the reloaded model's order.
    cls2cfg = {'AbsorptionContribution': 'Absorption',
               'CIAContribution': 'CIA', 'RayleighContribution': 'Rayleigh',
               'SimpleCloudsContribution': 'SimpleClouds',
               'FlatMieContribution': 'FlatMie',
               'LeeMieContribution': 'LeeMie',
               'HydrogenIon': 'HydrogenIon'}
    order2 = [cls2cfg[type(c).__name__] for c in m2.contribution_list]
    if order2 != [cls2cfg[type(c).__name__] for c in model.contribution_list]:
        out.bump('probes', 'reload_changed_contribution_order')
        mref = R.build_model(cfg['model'], install=False,
                             contrib_order=order2)
        for n_, t_ in model.fittingParameters.items():
            # (parameters may have been changed after the build)
            if n_ in mref.fittingParameters and \
                    mref.fittingParameters[n_][2]() != t_[2]():
                mref.fittingParameters[n_][3](t_[2]())
        if hasattr(model, '_mu_quads') and \
                len(mref._mu_quads) != len(model._mu_quads):
            mref.set_num_gauss(len(model._mu_quads))
        r1 = mref.model()
    if not np.array_equal(r1[0], r2[0]) or \
            not np.allclose(r1[1], r2[1], rtol=1e-12, atol=0):
        viol('reload', 'spectrum', 'reloaded model gives a different spectrum '
             '(max rel diff %.3g)'
             % float(np.max(np.abs(r1[1] - r2[1]) /
                            np.maximum(np.abs(r1[1]), 1e-300))))


def simplify(case):
    import copy
    cfg = case['config']
    if cfg['R'] > 1:
        c = copy.deepcopy(case)
        c['config']['R'] = 1
        yield c
    # drop leaves from stored trees
    for i, op in enumerate(case['ops']):
        if op[0] != 'store':
            continue
        tree = op[3]
        if len(tree) > 1:
            for j in range(len(tree)):
                c = copy.deepcopy(case)
                del c['ops'][i][3][j]
                yield c
        for j, (k, leaf) in enumerate(tree):
            if leaf['t'] == 'dict' and len(leaf['v']) >= 1:
                for jj in range(len(leaf['v'])):
                    c = copy.deepcopy(case)
                    sub = c['ops'][i][3][j][1]['v']
                    if len(sub) > 1:
                        del sub[jj]
                        yield c
                # hoist
                c = copy.deepcopy(case)
                c['ops'][i][3] = copy.deepcopy(leaf['v'])
                yield c
            if leaf['t'] == 'dictlist':
                c = copy.deepcopy(case)
                c['ops'][i][3] = copy.deepcopy(leaf['v'][0])
                yield c
    m = cfg.get('model')
    if m:
        if len(m['contribs']) > 1:
            for x in m['contribs'][1:]:
                c = copy.deepcopy(case)
                c['config']['model']['contribs'].remove(x)
                yield c
        if m['nlayers'] > 3:
            c = copy.deepcopy(case)
            c['config']['model']['nlayers'] = 3
            yield c
        if m.get('new_path'):
            c = copy.deepcopy(case)
            c['config']['model']['new_path'] = False
            yield c
        if m['tp']['kind'] != 'isothermal':
            c = copy.deepcopy(case)
            c['config']['model']['tp'] = {'kind': 'isothermal', 'T': 1000.0}
            yield c
