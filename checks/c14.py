"""C14 — opacity/CIA/k-table files of every supported format load to the same
physical table; caches serve what is configured.  Storage + cache machine
(DESIGN §5.5): real files in a per-run scratch store, process-wide caches, a
history of cache operations interleaved with storage events, checked against a
dict reference model.
"""
import math
import os
import shutil

import numpy as np

from sim.kernel import Streams, EventLog, Outcome, Violation, H
from sim import storage as ST

_warm = False

MOLS = {
    'H2O': ['H2O', '1H2-16O'],
    'CO2': ['CO2', '12C-16O2'],
    'CH4': ['CH4', '12C-1H4'],
    'NH3': ['NH3', '14N-1H3'],
    'CO': ['CO', '12C-16O'],
}
# (H2-H is a HITRAN pair whose name is contained in two others)
PAIRS = ['H2-H2', 'H2-He', 'N2-N2', 'H2-H', 'CO2-CO2', 'O2-CO2']
XFORMATS = ['pickle', 'hdf5', 'exo']
KFORMATS = ['kpickle', 'khdf5']


def warmup():
    global _warm
    if _warm:
        return
    import logging
    import taurex.log
    logging.getLogger('taurex').setLevel(logging.CRITICAL)
    taurex.log.disableLogging()
    from taurex.parameter.classfactory import ClassFactory
    ClassFactory()
    _warm = True


# --------------------------------------------------------------------------
# generation
# --------------------------------------------------------------------------

def _fname(rng, mol, fmt):
    alias = rng.choice(MOLS[mol])
    res = rng.choice(['R100', 'R15000', 'R7000'])
    if fmt == 'pickle':
        return '%s.%s.%s' % (alias, res, rng.choice(['TauREx.pickle',
                                                     'pickle']))
    if fmt == 'hdf5':
        return '%s_%s.%s' % (alias.replace('-', ''), res,
                             rng.choice(['h5', 'hdf5']))
    if fmt == 'exo':
        return 'opac%s.dat' % mol
    if fmt == 'kpickle':
        return '%s.%s.ktable.pickle' % (alias, res)
    if fmt == 'khdf5':
        return '%s_%s_k.%s' % (alias, res, rng.choice(['h5', 'hdf5']))
    raise ValueError(fmt)


def generate(run_seed, tier):
    st = Streams(run_seed)
    c = st('config')
    mols = c.sample(sorted(MOLS), c.randint(1, 3))
    ndirs = c.randint(1, 3)
    dirs = []
    for d in range(ndirs):
        files = []
        for m in mols:
            if c.random() < 0.85:
                fmts = c.sample(XFORMATS, c.randint(1, 3))
                for f in fmts:
                    files.append({'mol': m, 'fmt': f, 'file': _fname(c, m, f),
                                  'unit': c.choice(sorted(ST.PRESSURE_UNITS))})
        dirs.append(files)
    shape = {m: [c.randint(2, 4), c.randint(2, 5), c.randint(5, 24)]
             for m in sorted(MOLS)}
    # CIA: one container per pair per directory; two directories
    pairs = c.sample(PAIRS, c.randint(1, 3))
    cia_dirs = []
    for d in range(2):
        files = []
        for p in pairs:
            f = c.choice(['db', 'cia'])
            files.append({'pair': p, 'fmt': f,
                          'file': p + c.choice(['', '_2011', '_eq']) + '.' + f})
        cia_dirs.append(files)
    # k-tables: two directories
    kmols = c.sample(sorted(MOLS), c.randint(1, 2))
    kt_dirs = []
    for d in range(2):
        files = []
        for m in kmols:
            f = c.choice(KFORMATS)
            files.append({'mol': m, 'fmt': f, 'file': _fname(c, m, f),
                          'unit': c.choice(sorted(ST.PRESSURE_UNITS)),
                          # the name recorded inside a pickled k-table may
                          # carry an underscore tag (resolution, line list)
                          'ktag': c.choice(['', '', '_R100', '_HITEMP2010',
                                            '_hot'])})
        kt_dirs.append(files)
    cfg = {'tabseed': c.randrange(2**31), 'dirs': dirs, 'shape': shape,
           'mols': mols, 'pairs': pairs, 'cia_dirs': cia_dirs,
           'kmols': kmols, 'kt_dirs': kt_dirs,
           'cia_split': c.random() < 0.6, 'exo_orders': True,
           'cia_shared_edge': c.random() < 0.35,
           'cia_overlap': c.random() < 0.3,
           'cia_negatives': c.random() < 0.4,
           'deep_pressures': c.random() < 0.25,
           'hdf5_variants': True,
           'logmag': c.choice([[-40, 0], [-30, -18], [-24, -20]])}
    o = st('ops')
    n = o.randint(4, 40 if tier == 'quick' else 120)
    ops = []
    allm = sorted(MOLS)
    if o.random() < 0.9:
        ops.append(['set_path', o.randrange(ndirs)])
    if o.random() < 0.7:
        ops.append(['set_cia_path', o.randrange(2)])
    if o.random() < 0.7:
        ops.append(['set_kt_path', o.randrange(2)])
    for _ in range(n):
        r = o.random()
        if r < 0.10:
            ops.append(['set_path', o.randrange(ndirs)])
        elif r < 0.18:
            ops.append(['set_interp', o.choice(['linear', 'exp'])])
        elif r < 0.22:
            ops.append(['set_mem', o.random() < 0.5])
        elif r < 0.27:
            ops.append(['clear'])
        elif r < 0.45:
            ops.append(['get', o.choice(mols if o.random() < 0.85 else allm)])
        elif r < 0.57:
            ops.append(['probe', o.choice(mols), o.random(), o.random()])
        elif r < 0.60:
            # exactly on a node of the table
            ops.append(['probe_node', o.choice(mols), o.random(), o.random()])
        elif r < 0.64:
            ops.append(['add_mem', o.choice(allm),
                        o.choice([None, 'linear', 'exp'])])
        elif r < 0.70:
            ops.append(['replace_file', o.randrange(ndirs), o.choice(mols)])
        elif r < 0.74:
            ops.append(['remove_file', o.randrange(ndirs), o.choice(mols)])
        elif r < 0.78:
            ops.append(['add_file', o.randrange(ndirs), o.choice(allm),
                        o.choice(XFORMATS)])
        elif r < 0.82:
            ops.append(['perm_listing', o.randrange(10**6)])
        elif r < 0.85:
            ops.append(['perm_classes', o.randrange(10**6)])
        elif r < 0.88:
            ops.append(['set_cia_path', o.randrange(2)])
        elif r < 0.93:
            ops.append(['get_cia', o.choice(pairs), o.random()])
        elif r < 0.95:
            ops.append(['clear_cia'])
            if o.random() < 0.5:
                # a CIA object built by the caller from a container of either
                # directory, handed to the cache (add_cia, or load_cia with
                # one object or a list)
                ops.append(['add_cia_obj', o.choice(pairs), o.randrange(2),
                            o.choice(['add', 'load_single', 'load_list'])])
        elif r < 0.97:
            ops.append(['set_kt_path', o.randrange(2), o.random() < 0.5])
        else:
            ops.append(['get_kt', o.choice(kmols), o.random(), o.random()])
            if o.random() < 0.15:
                # a molecule no k-table of the store describes
                ops.append(['get_kt', o.choice([m for m in allm
                                                if m not in kmols] or ['XeF6']),
                            o.random(), o.random()])
        if o.random() < 0.05:
            # a reader constructed by the caller on one container of the
            # store, with its constructor options (streaming or in-memory
            # HDF5, either interpolation mode), used without the cache
            ops.append(['direct_object', o.randrange(8), o.randrange(64),
                        o.choice(['linear', 'exp']), o.random() < 0.5,
                        o.random(), o.random()])
        if o.random() < 0.06:
            ops.append([o.choice(['list_mols', 'list_mols', 'list_kt',
                                  'load_list'])] +
                       [o.sample(allm, o.randint(1, 3))])
        if o.random() < 0.04:
            # storage fault: a container is cut short (torn write / partial
            # copy); and a load with an explicit path argument
            ops.append(['corrupt_file', o.randrange(ndirs), o.choice(mols)])
        if o.random() < 0.05:
            ops.append(['load_explicit', o.randrange(ndirs), o.choice(mols)])
    return {'config': cfg, 'ops': ops}


# --------------------------------------------------------------------------
# reference formulas
# --------------------------------------------------------------------------

def _lerp(a, b, f):
    return a + (b - a) * f


def ref_interp(tab, mode, T, P):
    """Interior probe: (T, P[Pa]) strictly inside a cell -> cm2/1e4 = m2."""
    Tg = np.array(tab['T'])
    Pg = np.log10(np.array(tab['P']))
    x = np.array(tab['x'])
    lp = math.log10(P)
    it = int(np.searchsorted(Tg, T)) - 1
    ip = int(np.searchsorted(Pg, lp)) - 1
    fp = (lp - Pg[ip]) / (Pg[ip + 1] - Pg[ip])
    a = _lerp(x[ip, it], x[ip + 1, it], fp)          # at Tmin
    b = _lerp(x[ip, it + 1], x[ip + 1, it + 1], fp)  # at Tmax
    if mode == 'linear':
        ft = (T - Tg[it]) / (Tg[it + 1] - Tg[it])
        return _lerp(a, b, ft) / 10000.0
    f = (1.0 / Tg[it] - 1.0 / T) / (1.0 / Tg[it] - 1.0 / Tg[it + 1])
    return a * (b / a) ** f / 10000.0


def interior_point(tab, u, v):
    Tg, Pg = tab['T'], tab['P']
    it = min(int(u * (len(Tg) - 1)), len(Tg) - 2)
    ip = min(int(v * (len(Pg) - 1)), len(Pg) - 2)
    fu = 0.2 + 0.6 * ((u * (len(Tg) - 1)) % 1.0)
    fv = 0.2 + 0.6 * ((v * (len(Pg) - 1)) % 1.0)
    T = Tg[it] + fu * (Tg[it + 1] - Tg[it])
    lp = math.log10(Pg[ip]) + fv * (math.log10(Pg[ip + 1]) - math.log10(Pg[ip]))
    return T, 10 ** lp


def sanitize_ref(name):
    """Element symbols with their counts, isotope numbers dropped."""
    out = ''
    i = 0
    while i < len(name):
        ch = name[i]
        if ch.isupper():
            sym = ch
            if i + 1 < len(name) and name[i + 1].islower():
                sym += name[i + 1]
                i += 1
            i += 1
            num = ''
            while i < len(name) and name[i].isdigit():
                num += name[i]
                i += 1
            out += sym + num
        else:
            i += 1
    return out


# --------------------------------------------------------------------------
# execution
# --------------------------------------------------------------------------

class Stop(Exception):
    pass


def _tie_sorted(wn, vals):
    """vals on an ascending grid that may hold a wavenumber twice (two bands
    sharing an edge): values within a run of equal wavenumbers in ascending
    order, so that the arbitrary order of ties does not matter."""
    wn = np.asarray(wn, dtype=float)
    vals = np.array(vals, dtype=float)
    i = 0
    n = len(wn)
    while i < n:
        j = i + 1
        while j < n and wn[j] == wn[i]:
            j += 1
        if j - i > 1:
            vals[i:j] = np.sort(vals[i:j])
        i = j
    return vals


def _close_arr(a, b, rel=1e-12, abs_=0.0):
    a = np.asarray(a, dtype=float)
    b = np.asarray(b, dtype=float)
    if a.shape != b.shape:
        return False
    return bool(np.all(np.abs(a - b) <= rel * np.abs(b) + abs_))


def execute(case, keep_text=False):
    warmup()
    cfg = case['config']
    ops = case['ops']
    out = Outcome()
    log = EventLog(keep_text)
    from taurex.cache import OpacityCache, CIACache, GlobalCache
    from taurex.cache.ktablecache import KTableCache
    from sim import realmodel as R

    def viol(cls, key, detail, step=None):
        out.violations.append(Violation(cls, key, detail, step))

    base = os.path.join(os.environ.get('VERIF_RUN_SCRATCH', '/dev/shm'),
                        'c14-store')
    shutil.rmtree(base, ignore_errors=True)
    os.makedirs(base)
    R.reset_caches()

    tabs = {}        # (kind, name, gen) -> table

    def xtab(mol, gen):
        key = ('x', mol, gen)
        if key not in tabs:
            nT, nP, nW = cfg['shape'][mol]
            rs = np.random.RandomState(H(cfg['tabseed'], mol, gen) % 2**32)
            tabs[key] = ST.make_xsec_table(rs, nT, nP, nW,
                                           logmag=tuple(cfg['logmag']),
                                           deep=bool(cfg.get('deep_pressures')))
        return tabs[key]

    def ciatab(pair):
        key = ('c', pair, 0)
        if key not in tabs:
            rs = np.random.RandomState(H(cfg['tabseed'], pair) % 2**32)
            nT = rs.randint(3, 6)
            T = ST.distinct_ints(rs, 1000, 30000, nT) / 10.0
            wnA = ST.distinct_ints(rs, 200000, 9000000,
                                   rs.randint(4, 12)) / 1e4
            wnB = ST.distinct_ints(rs, 10000000, 50000000,
                                   rs.randint(4, 12)) / 1e4
            if cfg.get('cia_overlap') and not cfg.get('cia_shared_edge'):
                # the second range lies INSIDE the span of the first (two
                # experiments over overlapping ranges, as in N2-N2): the
                # unified grid interleaves their points
                lo_, hi_ = int(np.min(wnA) * 1e4) + 1, int(np.max(wnA) * 1e4)
                taken = set(int(round(v * 1e4)) for v in wnA)
                cand = set()
                while len(cand) < rs.randint(4, 12):
                    v = int(rs.randint(lo_, hi_))
                    if v not in taken:
                        cand.add(v)
                wnB = np.array(sorted(cand), dtype=float) / 1e4
            if cfg.get('cia_shared_edge'):
                # the second band starts exactly where the first one ends
                # (both files and tables then hold that wavenumber twice)
                wnB = np.concatenate([[np.max(wnA)], wnB])
            groups = [(wnA, list(range(nT)))]
            if cfg.get('cia_split'):
                # second wavenumber range present only for a sub-range of T
                lo = rs.randint(0, nT - 1)
                hi = rs.randint(lo + 1, nT)
                sub = [i for i in range(lo, hi + 1)
                       if i in (lo, hi) or rs.rand() < 0.6]
                groups.append((wnB, sub))
            blocks = []
            uni_wn = np.concatenate([g[0] for g in groups])
            x = np.zeros((nT, len(uni_wn)))
            off = 0
            for wn, tidx in groups:
                vals = {i: 10 ** rs.uniform(-56, -50, len(wn)) for i in tidx}
                for i in tidx:
                    raw = vals[i].copy()
                    if cfg.get('cia_negatives'):
                        # measured HITRAN files hold a few negative values
                        # (noise); the documented rule clips them to zero on
                        # reading, before anything is interpolated
                        neg = rs.rand(len(wn)) < 0.25
                        raw[neg] = -raw[neg]
                        vals[i] = np.where(neg, 0.0, vals[i])
                    blocks.append((float(T[i]), wn.tolist(), raw.tolist()))
                for i in range(nT):
                    if i in vals:
                        col = vals[i]
                    elif min(tidx) < i < max(tidx):
                        lo_i = max(j for j in tidx if j < i)
                        hi_i = min(j for j in tidx if j > i)
                        f = (T[i] - T[lo_i]) / (T[hi_i] - T[lo_i])
                        col = vals[lo_i] + (vals[hi_i] - vals[lo_i]) * f
                    else:
                        col = np.zeros(len(wn))
                    x[i, off:off + len(wn)] = col
                off += len(wn)
            rs.shuffle(blocks)
            # the physical table on its ascending grid (a stable sort: a
            # wavenumber shared by two bands keeps the band order)
            srt = np.argsort(uni_wn, kind='stable')
            uni_wn = uni_wn[srt]
            x = x[:, srt]
            tabs[key] = {'T': T.tolist(), 'wn': uni_wn.tolist(),
                         'x': x.tolist(), 'blocks': blocks}
        return tabs[key]

    def kttab(mol, d=0):
        # (each directory holds its own table of the molecule: what is served
        # tells which directory it came from)
        key = ('k', mol, d)
        if key not in tabs:
            rs = np.random.RandomState(H(cfg['tabseed'], 'kt', mol, d)
                                       % 2**32)
            nT, nP, nW = cfg['shape'][mol]
            t = ST.make_xsec_table(rs, nT, nP, nW, logmag=tuple(cfg['logmag']))
            ng = rs.randint(2, 5)
            w = rs.uniform(0.1, 1, ng)
            w = w / w.sum()
            k = 10 ** rs.uniform(cfg['logmag'][0], cfg['logmag'][1],
                                 size=(nP, nT, nW, ng))
            t.pop('x')
            t['w'] = w.tolist()
            t['k'] = k.tolist()
            tabs[key] = t
        return tabs[key]

    # ----- materialise the store
    dirpaths = [os.path.join(base, 'xsec%d' % i) for i in range(len(cfg['dirs']))]
    store = []     # per dir: list of file records with 'gen'
    gens = []      # per dir: mol -> gen
    for dp, files in zip(dirpaths, cfg['dirs']):
        os.makedirs(dp)
        recs = []
        for f in files:
            recs.append(dict(f, gen=0))
        store.append(recs)
        gens.append({})

    def write_x(dp, rec):
        tab = xtab(rec['mol'], rec['gen'])
        path = os.path.join(dp, rec['file'])
        rec['corrupt'] = False
        if rec['fmt'] == 'pickle':
            ST.write_pickle_xsec(path, tab)
        elif rec['fmt'] == 'hdf5':
            var = 0
            if cfg.get('hdf5_variants'):
                var = H(cfg['tabseed'], 'h5-variant', rec['file']) % 4
                out.bump('faults', 'hdf5_layout_variant_%d' % var)
            ST.write_hdf5_xsec(path, tab, rec['mol'], rec['unit'], var)
        else:
            order = 'asc'
            if cfg.get('exo_orders'):
                hh = H(cfg['tabseed'], 'exo-order', rec['file'], rec['gen'])
                order = ['asc', 'asc', 'desc', 'shuffle'][hh % 4]
                out.bump('faults', 'exo_blocks_' + order)
            ST.write_exotransmit(path, tab, order, H(cfg['tabseed'],
                                                     rec['file']))

    for dp, recs in zip(dirpaths, store):
        seen = set()
        for rec in list(recs):
            if rec['file'] in seen:
                recs.remove(rec)
                continue
            seen.add(rec['file'])
            write_x(dp, rec)
    cia_paths = [os.path.join(base, 'cia%d' % i) for i in range(2)]
    for dp, files in zip(cia_paths, cfg['cia_dirs']):
        os.makedirs(dp)
        for f in files:
            t = ciatab(f['pair'])
            path = os.path.join(dp, f['file'])
            if f['fmt'] == 'db':
                ST.write_pickle_cia(path, t['T'], t['wn'], t['x'])
            else:
                ST.write_hitran_cia(path, f['pair'], t['blocks'])
    kt_paths = [os.path.join(base, 'kt%d' % i) for i in range(2)]
    for di_, (dp, files) in enumerate(zip(kt_paths, cfg['kt_dirs'])):
        os.makedirs(dp)
        for f in files:
            t = kttab(f['mol'], di_)
            path = os.path.join(dp, f['file'])
            if f['fmt'] == 'kpickle':
                ST.write_pickle_ktable(path, t, f['mol'] + f.get('ktag', ''))
            else:
                ST.write_hdf5_ktable(path, t, f['unit'])

    # ----- reference state
    ref = {'path': None, 'interp': 'linear', 'served': {},
           'cia_path': None, 'cia_served': {}, 'kt_path': None,
           'kt_served': {}, 'memcount': 0}
    sig = []
    fault_kinds = set()
    formats_loaded = set()

    def check_xsec_obj(step, obj, mol, tab, fmt):
        name_ok = obj.moleculeName == mol
        if not name_ok:
            viol('wrong-name', fmt, 'molecule %s served under name %r'
                 % (mol, obj.moleculeName), step)
            raise Stop()
        abs_ = 1e-55 if fmt == 'exo' else 0.0
        xg = np.asarray(obj.xsecGrid[...], dtype=float)
        if not _close_arr(obj.temperatureGrid, tab['T']):
            viol('table-mismatch', fmt + ':T', 'temperature grid differs', step)
            raise Stop()
        if not _close_arr(obj.pressureGrid, tab['P']):
            viol('table-mismatch', fmt + ':P', 'pressure grid in Pa differs: %s '
                 'vs %s' % (list(obj.pressureGrid)[:3], tab['P'][:3]), step)
            raise Stop()
        if not _close_arr(obj.wavenumberGrid, tab['wn']):
            viol('table-mismatch', fmt + ':wn', 'wavenumber grid differs', step)
            raise Stop()
        if xg.shape != np.array(tab['x']).shape or \
                not _close_arr(xg, tab['x'], 1e-12, abs_):
            viol('table-mismatch', fmt + ':xsec', 'cross-section table '
                 'differs (shape %s vs %s)' % (xg.shape,
                                               np.array(tab['x']).shape), step)
            raise Stop()

    def fmt_of(obj):
        n = type(obj).__name__
        return {'PickleOpacity': 'pickle', 'HDF5Opacity': 'hdf5',
                'ExoTransmitOpacity': 'exo', 'MemOpacity': 'mem',
                'PickleKTable': 'kpickle', 'HDF5KTable': 'khdf5',
                'PickleCIA': 'db', 'HitranCIA': 'cia'}.get(n, n)

    def do_get(step, mol):
        served = ref['served'].get(mol)
        try:
            obj = OpacityCache()[mol]
            err = None
        except Exception as e:     # noqa
            obj, err = None, e
        if served is not None:
            if obj is None:
                viol('cache-lost', 'xsec', 'served molecule %s now raises %r'
                     % (mol, err), step)
                raise Stop()
            if obj is not served['obj']:
                viol('not-loaded-once', 'xsec', 'second request for %s returned '
                     'a different object (no clear in between)' % mol, step)
                raise Stop()
            out.bump('probes', 'served_again')
            return obj
        # not served: load from the configured path
        cands = []
        if ref['path'] is not None:
            cands = [r for r in store[ref['path']] if r['mol'] == mol]
        if not cands:
            if obj is not None:
                viol('phantom-load', 'xsec', '%s served although no container '
                     'for it exists in the configured path' % mol, step)
                raise Stop()
            out.bump('probes', 'missing_molecule_requested')
            return None
        if obj is None and any(r.get('corrupt')
                               for r in store[ref['path']]):
            # a cut-short container in the configured directory: a request
            # may fail (discovery opens every file); it must not serve wrong
            # data, which the branches below still check when it succeeds
            out.bump('probes', 'load_failed_beside_corrupt_file')
            return None
        if obj is None:
            viol('load-failed', 'xsec:' + '+'.join(sorted(set(
                r['fmt'] for r in cands))),
                '%s has container(s) %s in the configured path but the cache '
                'raised %r' % (mol, [r['file'] for r in cands], err), step)
            raise Stop()
        fmt = fmt_of(obj)
        gensset = set(r['gen'] for r in cands)
        tab = xtab(mol, cands[0]['gen'])
        check_xsec_obj(step, obj, mol, tab, fmt)
        formats_loaded.add(fmt)
        out.bump('steps', 'loads:' + fmt)
        if len(set(r['fmt'] for r in cands)) > 1:
            out.bump('probes', 'duplicate_containers')
        ref['served'][mol] = {'obj': obj, 'tab': tab, 'fmt': fmt,
                              'gen': cands[0]['gen'], 'dir': ref['path']}
        return obj

    def grid_choice(obj, u, v):
        """The wavenumber argument of a request: none, the object's whole
        grid, or a run of its own nodes (the ends are nodes exactly)."""
        g = np.asarray(obj.wavenumberGrid, dtype=float)
        kind = int(u * 1000) % 3
        if kind == 0 or len(g) < 3:
            return None, slice(None)
        if kind == 1:
            return g.copy(), slice(None)
        i = int(v * 1000) % (len(g) - 2)
        j = i + 2 + int(u * 7919) % (len(g) - i - 1)
        out.bump('probes', 'request_on_node_subrange')
        return g[i:j].copy(), slice(i, j)

    def do_probe(step, mol, u, v):
        obj = do_get(step, mol)
        if obj is None:
            return
        s = ref['served'][mol]
        T, P = interior_point(s['tab'], u, v)
        wsel, isel = grid_choice(obj, u, v)
        raw = obj.opacity(T, P, wsel) if wsel is not None \
            else obj.opacity(T, P)
        got = np.asarray(raw, dtype=float)
        for a_obj, a_copy, what in held:
            # what earlier requests returned must not change under the
            # caller's feet when the cache is used again
            if not np.array_equal(np.asarray(a_obj, dtype=float), a_copy,
                                  equal_nan=True):
                viol('result-overwritten', 'xsec', 'the array returned for %s '
                     'changed after a later request' % what, step)
                raise Stop()
        held.append((raw, np.array(got, copy=True), mol))
        del held[:-6]
        mode = s.get('mode', ref['interp'])
        want = ref_interp(s['tab'], mode, T, P)[isel]
        other = ref_interp(s['tab'], 'exp' if mode == 'linear'
                           else 'linear', T, P)[isel]
        if np.any(np.abs(want - other) > 1e-6 * np.abs(want)):
            out.bump('probes', 'mode_discriminating_probe')
        abs_ = 1e-59 if s['fmt'] == 'exo' else 0.0
        if not _close_arr(got, want, 1e-9, abs_):
            match_other = _close_arr(got, other, 1e-9, abs_)
            viol('probe-mismatch',
                 'other-mode' if match_other else 'value',
                 '%s (%s) at T=%r P=%r: served opacity does not follow the '
                 'configured interpolation mode %r%s'
                 % (mol, s['fmt'], T, P, mode,
                    ' (matches the other mode)' if match_other else ''), step)
            raise Stop()
        out.bump('steps', 'probes')
        log.add('cache', 'probe', [mol, T, P, got])

    held = []
    held_cia = []

    def clear_served():
        if ref['served']:
            out.bump('probes', 'cleared_while_populated')
        ref['served'] = {}

    lseam = ST.ListingSeam()
    cseam = ST.ClassOrderSeam()
    try:
        with lseam, cseam:
            for step, op in enumerate(ops):
                k = op[0]
                out.bump('steps', 'ops')
                log.add('drv', 'op', op)
                if k == 'set_path':
                    i = op[1] % len(dirpaths)
                    OpacityCache().set_opacity_path(dirpaths[i])
                    ref['path'] = i
                elif k == 'set_interp':
                    OpacityCache().set_interpolation(op[1])
                    ref['interp'] = op[1]
                    clear_served()
                    sig.append(('interp', op[1]))
                elif k == 'set_mem':
                    OpacityCache().set_memory_mode(op[1])
                    clear_served()
                elif k == 'clear':
                    OpacityCache().clear_cache()
                    clear_served()
                elif k == 'get':
                    do_get(step, op[1])
                elif k == 'probe':
                    do_probe(step, op[1], op[2], op[3])
                elif k == 'probe_node':
                    obj = do_get(step, op[1])
                    if obj is None:
                        continue
                    s_ = ref['served'][op[1]]
                    tb = s_['tab']
                    it = min(int(op[2] * len(tb['T'])), len(tb['T']) - 1)
                    ip = min(int(op[3] * len(tb['P'])), len(tb['P']) - 1)
                    # the served object's own node values (unit conversion
                    # may move a pressure by one ulp)
                    got = np.asarray(obj.opacity(
                        float(obj.temperatureGrid[it]),
                        float(obj.pressureGrid[ip])), dtype=float)
                    want = np.array(tb['x'])[ip, it] / 10000.0
                    # a + (b - a)*1.0 loses b when |a| >> |b| (tables span up
                    # to 40 decades): allow the round-off of the largest
                    # neighbour at each wavenumber
                    abs_ = 1e-13 * np.max(np.array(tb['x']), axis=(0, 1)) \
                        / 10000.0 + (1e-59 if s_['fmt'] == 'exo' else 0.0)
                    if got.shape != want.shape or np.any(
                            np.abs(got - want) > 1e-9 * np.abs(want) + abs_):
                        viol('probe-mismatch', 'node', '%s (%s): the value at '
                             'the table node T=%r P=%r is not the tabulated one'
                             % (op[1], s_['fmt'], tb['T'][it], tb['P'][ip]),
                             step)
                        raise Stop()
                    out.bump('steps', 'node_probes')
                elif k == 'add_mem':
                    mol = op[1]
                    ref['memcount'] += 1
                    tab = xtab(mol, 1000 + ref['memcount'])
                    # an object handed over by the user keeps the mode it
                    # was built with (until the next mode change clears the
                    # cache); it need not be the configured one
                    omode = ref['interp']
                    if len(op) > 2 and op[2]:
                        omode = op[2]
                        if omode != ref['interp']:
                            out.bump('probes', 'added_object_other_mode')
                    obj = R.MemOpacity(mol, tab['wn'], tab['T'], tab['P'],
                                       tab['x'], interpolation_mode=omode)
                    OpacityCache().add_opacity(obj)
                    if mol not in ref['served']:
                        ref['served'][mol] = {'obj': obj, 'tab': tab,
                                              'fmt': 'mem', 'gen': -1,
                                              'dir': None, 'mode': omode}
                    else:
                        out.bump('probes', 'add_over_served')
                elif k == 'load_list':
                    # several in-memory opacities handed over at once
                    objs = []
                    for mol in op[1]:
                        ref['memcount'] += 1
                        tab = xtab(mol, 1000 + ref['memcount'])
                        obj = R.MemOpacity(mol, tab['wn'], tab['T'], tab['P'],
                                           tab['x'],
                                           interpolation_mode=ref['interp'])
                        objs.append(obj)
                        if mol not in ref['served']:
                            ref['served'][mol] = {'obj': obj, 'tab': tab,
                                                  'fmt': 'mem', 'gen': -1,
                                                  'dir': None}
                    OpacityCache().load_opacity(opacities=objs)
                elif k == 'direct_object':
                    i = op[1] % len(dirpaths)
                    recs = [r_ for r_ in store[i] if not r_.get('corrupt')
                            and not r_.get('removed')]
                    if not recs:
                        continue
                    rec = recs[op[2] % len(recs)]
                    pth = os.path.join(dirpaths[i], rec['file'])
                    if not os.path.exists(pth):
                        continue
                    from taurex.opacity import PickleOpacity
                    from taurex.opacity.hdf5opacity import HDF5Opacity
                    from taurex.opacity.exotransmit import ExoTransmitOpacity
                    tab = xtab(rec['mol'], rec['gen'])
                    try:
                        if rec['fmt'] == 'hdf5':
                            dobj = HDF5Opacity(pth, interpolation_mode=op[3],
                                               in_memory=op[4])
                        elif rec['fmt'] == 'pickle':
                            dobj = PickleOpacity(pth, interpolation_mode=op[3])
                        else:
                            dobj = ExoTransmitOpacity(
                                pth, interpolation_mode=op[3])
                        T, P = interior_point(tab, op[5], op[6])
                        got = np.asarray(dobj.opacity(T, P), dtype=float)
                    except Exception as e:    # noqa
                        viol('load-failed', 'direct:' + rec['fmt'],
                             '%s constructed directly (mode %s, in_memory=%s) '
                             'raised %r' % (rec['file'], op[3], op[4], e),
                             step)
                        raise Stop()
                    try:        # (a streaming reader keeps its file open)
                        import h5py
                        for v_ in list(vars(dobj).values()):
                            if isinstance(v_, h5py.File):
                                v_.close()
                    except Exception:
                        pass
                    want = ref_interp(tab, op[3], T, P)
                    out.bump('probes', 'reader_constructed_directly')
                    if not _close_arr(got, want, 1e-9,
                                      1e-59 if rec['fmt'] == 'exo' else 0.0):
                        viol('probe-mismatch', 'direct:' + rec['fmt'],
                             '%s constructed directly: opacity at T=%r P=%r '
                             'does not follow the table in mode %s'
                             % (rec['file'], T, P, op[3]), step)
                        raise Stop()
                elif k == 'corrupt_file':
                    i = op[1] % len(dirpaths)
                    hit = False
                    for r_ in store[i]:
                        if r_['mol'] == op[2] and r_['fmt'] in ('pickle',
                                                                 'hdf5'):
                            pth = os.path.join(dirpaths[i], r_['file'])
                            n_ = os.path.getsize(pth)
                            with open(pth, 'r+b') as fh:
                                fh.truncate(max(1, int(n_ * 0.4)))
                            r_['corrupt'] = True
                            hit = True
                    if hit:
                        out.bump('faults', 'file_cut_short')
                        fault_kinds.add('corrupt')
                elif k == 'load_explicit':
                    # a load that names a directory explicitly; whatever it
                    # does (or fails to do), what the cache serves afterwards
                    # must still come from the CONFIGURED path
                    j = op[1] % len(dirpaths)
                    try:
                        OpacityCache().load_opacity(
                            opacity_path=dirpaths[j],
                            molecule_filter=[op[2]])
                    except Exception:
                        out.bump('probes', 'explicit_load_raised')
                    out.bump('steps', 'explicit_loads')
                    if GlobalCache()['xsec_path'] != (
                            None if ref['path'] is None
                            else dirpaths[ref['path']]):
                        viol('configured-path-changed', 'xsec',
                             'after load_opacity(opacity_path=...) the '
                             'configured path is %r, it was set to %r'
                             % (GlobalCache()['xsec_path'],
                                None if ref['path'] is None
                                else dirpaths[ref['path']]), step)
                        raise Stop()
                    do_get(step, op[2])
                elif k == 'list_mols':
                    if ref['path'] is not None and any(
                            r_.get('corrupt') for r_ in store[ref['path']]):
                        continue      # discovery may fail beside a torn file
                    try:
                        got = set(OpacityCache().find_list_of_molecules())
                    except Exception as e:    # noqa
                        viol('listing-raised', 'xsec:' + type(e).__name__,
                             'listing the molecules of an intact store '
                             'raised %r' % (e,), step)
                        raise Stop()
                    want = set(ref['served'])
                    if ref['path'] is not None:
                        want |= set(r['mol'] for r in store[ref['path']])
                    if got != want:
                        viol('listing', 'xsec', 'molecules available: cache '
                             'says %s, configured path and loaded objects '
                             'give %s' % (sorted(got), sorted(want)), step)
                        raise Stop()
                    out.bump('steps', 'listings')
                elif k == 'list_kt':
                    if ref['kt_path'] is None:
                        continue
                    try:
                        got = set(KTableCache().find_list_of_molecules())
                    except Exception as e:    # noqa
                        viol('listing-raised', 'ktable:' + type(e).__name__,
                             'listing the k-tables of an intact store '
                             'raised %r' % (e,), step)
                        raise Stop()
                    want = set(f['mol'] for f in cfg['kt_dirs'][ref['kt_path']])
                    if got != want:
                        viol('listing', 'ktable', 'k-tables available: cache '
                             'says %s, configured path holds %s'
                             % (sorted(got), sorted(want)), step)
                        raise Stop()
                    out.bump('steps', 'listings')
                elif k == 'replace_file':
                    i = op[1] % len(dirpaths)
                    recs = [r for r in store[i] if r['mol'] == op[2]]
                    if recs:
                        g = max(r['gen'] for r in recs) + 1
                        for r in recs:
                            r['gen'] = g
                            write_x(dirpaths[i], r)
                        out.bump('faults', 'file_replaced')
                        fault_kinds.add('replace')
                        s = ref['served'].get(op[2])
                        if s and s['dir'] == i:
                            out.bump('probes', 'replaced_after_served')
                elif k == 'remove_file':
                    i = op[1] % len(dirpaths)
                    recs = [r for r in store[i] if r['mol'] == op[2]]
                    for r in recs:
                        os.remove(os.path.join(dirpaths[i], r['file']))
                        store[i].remove(r)
                    if recs:
                        out.bump('faults', 'file_removed')
                        fault_kinds.add('remove')
                        s = ref['served'].get(op[2])
                        if s and s['dir'] == i:
                            out.bump('probes', 'removed_after_served')
                elif k == 'add_file':
                    i = op[1] % len(dirpaths)
                    mol, fmt = op[2], op[3]
                    existing = [r for r in store[i] if r['mol'] == mol]
                    g = existing[0]['gen'] if existing else 0
                    fn = {'pickle': '%s.R1.pickle' % mol,
                          'hdf5': '%s_added.h5' % mol,
                          'exo': 'opac%s.dat' % mol}[fmt]
                    if not any(r['file'] == fn for r in store[i]):
                        rec = {'mol': mol, 'fmt': fmt, 'file': fn,
                               'unit': 'bar', 'gen': g}
                        store[i].append(rec)
                        write_x(dirpaths[i], rec)
                        out.bump('faults', 'file_added')
                        fault_kinds.add('add')
                elif k == 'perm_listing':
                    lseam.salt = op[1]
                    out.bump('faults', 'listing_permuted')
                elif k == 'perm_classes':
                    cseam.set_order(op[1])
                    out.bump('faults', 'class_order_permuted')
                elif k == 'set_cia_path':
                    CIACache().set_cia_path(cia_paths[op[1] % 2])
                    ref['cia_path'] = op[1] % 2
                elif k == 'clear_cia':
                    CIACache().cia_dict = {}
                    ref['cia_served'] = {}
                elif k == 'add_cia_obj':
                    from taurex.cia import PickleCIA, HitranCIA
                    pair = op[1]
                    rec = [f for f in cfg['cia_dirs'][op[2] % 2]
                           if f['pair'] == pair][0]
                    path = os.path.join(cia_paths[op[2] % 2], rec['file'])
                    try:
                        obj = PickleCIA(path, pair) if rec['fmt'] == 'db' \
                            else HitranCIA(path)
                    except Exception:
                        continue     # container damaged by a storage event
                    in_cache = CIACache().cia_dict.get(pair)
                    try:
                        if op[3] == 'add':
                            CIACache().add_cia(obj)
                        elif op[3] == 'load_single':
                            CIACache().load_cia(cia_xsec=obj, cia_path=[])
                        else:
                            CIACache().load_cia(cia_xsec=[obj], cia_path=[])
                        err = None
                    except Exception as e:    # noqa
                        err = e
                    now = CIACache().cia_dict.get(pair)
                    out.bump('probes', 'cia_object_handed_over')
                    if in_cache is not None:
                        # the pair is in the cache already: the object in
                        # the cache stays (the call may refuse)
                        if now is not in_cache:
                            viol('not-loaded-once', 'cia:add', '%s: the '
                                 'object held by the cache was replaced by '
                                 '%s (%r)' % (pair, op[3], err), step)
                            raise Stop()
                    else:
                        if now is not obj:
                            viol('load-failed', 'cia:add', '%s handed over '
                                 'through %s is not what the cache holds '
                                 '(%r)' % (pair, op[3], err), step)
                            raise Stop()
                        ref['cia_served'][pair] = obj
                elif k == 'get_cia':
                    pair = op[1]
                    served = ref['cia_served'].get(pair)
                    try:
                        obj = CIACache()[pair]
                        err = None
                    except Exception as e:    # noqa
                        obj, err = None, e
                    if served is not None:
                        if obj is not served:
                            viol('not-loaded-once', 'cia', '%s: different '
                                 'object on second request (%r)' % (pair, err),
                                 step)
                            raise Stop()
                    elif ref['cia_path'] is None:
                        if obj is not None:
                            viol('phantom-load', 'cia', pair, step)
                            raise Stop()
                        continue
                    else:
                        rec = [f for f in cfg['cia_dirs'][ref['cia_path']]
                               if f['pair'] == pair]
                        if obj is None:
                            viol('load-failed', 'cia:' + rec[0]['fmt'],
                                 '%s (%s) could not be loaded: %r'
                                 % (pair, rec[0]['file'], err), step)
                            raise Stop()
                        t = ciatab(pair)
                        fmt = fmt_of(obj)
                        if obj.pairName != pair:
                            viol('wrong-name', fmt, 'pair %s served as %r'
                                 % (pair, obj.pairName), step)
                            raise Stop()
                        order = np.argsort(t['wn'])
                        wn = np.array(t['wn'])[order]
                        x = np.array(t['x'])[:, order]
                        if not _close_arr(obj.temperatureGrid, t['T']) or \
                                not _close_arr(obj.wavenumberGrid, wn, 1e-12):
                            viol('table-mismatch', fmt + ':grid', '%s: CIA '
                                 'grids differ' % pair, step)
                            raise Stop()
                        ref['cia_served'][pair] = obj
                        formats_loaded.add(fmt)
                        out.bump('steps', 'loads:' + fmt)
                    t = ciatab(pair)
                    order = np.argsort(t['wn'])
                    x = np.array(t['x'])[:, order]
                    T = t['T']
                    # node and mid-point temperatures
                    j = min(int(op[2] * (len(T) - 1)), len(T) - 2)
                    for TT, want in ((T[j], x[j]),
                                     (0.5 * (T[j] + T[j + 1]),
                                      0.5 * (x[j] + x[j + 1]))):
                        raw = obj.cia(TT)
                        got = np.asarray(raw, dtype=float)
                        for a_obj, a_copy in held_cia:
                            # every array handed out earlier is still what it
                            # was, also after this request
                            if not np.array_equal(
                                    np.asarray(a_obj, dtype=float), a_copy,
                                    equal_nan=True):
                                viol('result-overwritten', 'cia', 'an array '
                                     'returned by an earlier CIA request '
                                     'changed after a later one (%s)' % pair,
                                     step)
                                raise Stop()
                        held_cia.append((raw, np.array(got, copy=True)))
                        del held_cia[:-6]
                        wns = np.sort(np.asarray(t['wn'], dtype=float))
                        if got.shape == wns.shape:
                            got = _tie_sorted(wns, got)
                        want = _tie_sorted(wns, want)
                        if not _close_arr(got, want, 1e-9, 1e-75):
                            viol('table-mismatch', fmt_of(obj) + ':cia',
                                 '%s at T=%r: CIA cross-section differs from '
                                 'the physical table' % (pair, TT), step)
                            raise Stop()
                    out.bump('steps', 'cia_probes')
                elif k == 'set_kt_path':
                    if step % 2:
                        # through the cache's own setter
                        KTableCache().set_ktable_path(kt_paths[op[1] % 2])
                    else:
                        GlobalCache()['ktable_path'] = kt_paths[op[1] % 2]
                    ref['kt_path'] = op[1] % 2
                    if len(op) > 2 and not op[2]:
                        # no clear: what is loaded stays, what is requested
                        # next comes from the newly configured directory
                        out.bump('probes', 'ktable_path_changed_without_clear')
                    else:
                        KTableCache().clear_cache()
                        ref['kt_served'] = {}
                elif k == 'get_kt':
                    mol = op[1]
                    if ref['kt_path'] is None:
                        continue
                    served = ref['kt_served'].get(mol)
                    try:
                        obj = KTableCache()[mol]
                        err = None
                    except Exception as e:   # noqa
                        obj, err = None, e
                    rec = [f for f in cfg['kt_dirs'][ref['kt_path']]
                           if f['mol'] == mol]
                    if not rec:
                        out.bump('probes', 'missing_ktable_requested')
                        if obj is not None:
                            viol('phantom-load', 'ktable', '%s served although '
                                 'no k-table of the configured path describes '
                                 'it' % mol, step)
                            raise Stop()
                        continue
                    if obj is None:
                        viol('load-failed', 'ktable:' + rec[0]['fmt'],
                             '%s (%s): %r' % (mol, rec[0]['file'], err), step)
                        raise Stop()
                    if served is not None and obj is not served['obj']:
                        viol('not-loaded-once', 'ktable', mol, step)
                        raise Stop()
                    t = kttab(mol, served['dir'] if served is not None
                              else ref['kt_path'])
                    fmt = fmt_of(obj)
                    if served is None:
                        if obj.moleculeName != mol:
                            viol('wrong-name', fmt, '%s served as %r'
                                 % (mol, obj.moleculeName), step)
                            raise Stop()
                        kg = np.asarray(obj.xsecGrid[...], dtype=float)
                        if not (_close_arr(obj.temperatureGrid, t['T']) and
                                _close_arr(obj.pressureGrid, t['P']) and
                                _close_arr(obj.wavenumberGrid, t['wn']) and
                                _close_arr(obj.weights, t['w']) and
                                _close_arr(kg, t['k'])):
                            viol('table-mismatch', fmt + ':ktable',
                                 '%s: k-table differs from the physical table'
                                 % mol, step)
                            raise Stop()
                        ref['kt_served'][mol] = {'obj': obj,
                                                 'interp': ref['interp'],
                                                 'dir': ref['kt_path']}
                        formats_loaded.add(fmt)
                        out.bump('steps', 'loads:' + fmt)
                    mode = ref['kt_served'][mol]['interp']
                    T, P = interior_point(t, op[2], op[3])
                    wsel, isel = grid_choice(obj, op[2], op[3])
                    got = np.asarray(
                        obj.opacity(T, P, wsel) if wsel is not None
                        else obj.opacity(T, P), dtype=float)
                    karr = np.array(t['k'])
                    want = np.empty(karr.shape[2:])
                    for g in range(karr.shape[3]):
                        want[:, g] = ref_interp(
                            {'T': t['T'], 'P': t['P'], 'x': karr[..., g]},
                            mode, T, P)
                    want = want[isel]
                    if not _close_arr(got, want, 1e-9):
                        viol('probe-mismatch', 'ktable', '%s (%s) at T=%r '
                             'P=%r does not follow mode %r'
                             % (mol, fmt, T, P, mode), step)
                        raise Stop()
                    out.bump('steps', 'kt_probes')
                else:
                    raise ValueError(op)
    except Stop:
        pass
    finally:
        R.reset_caches()
        shutil.rmtree(base, ignore_errors=True)
    out.bump('steps', 'glob_calls', lseam.calls)
    out.digest = log.digest()
    trig = []
    kinds = [op[0] for op in ops]
    for a, b, c_ in zip(kinds, kinds[1:], kinds[2:]):
        trig.append((a, b, c_))
    out.signature = '%x' % H(tuple(sorted(formats_loaded)),
                             tuple(sorted(set(trig))),
                             tuple(sorted(fault_kinds)))
    out.nontrivial = len(formats_loaded) >= 1
    return out


def simplify(case):
    import copy
    cfg = case['config']
    used = set()
    for op in case['ops']:
        for a in op[1:]:
            if isinstance(a, str):
                used.add(a)
    for i, files in enumerate(cfg['dirs']):
        for j, f in enumerate(files):
            c = copy.deepcopy(case)
            del c['config']['dirs'][i][j]
            yield c
    for key in ('cia_dirs', 'kt_dirs'):
        for i, files in enumerate(cfg[key]):
            for j, f in enumerate(files):
                nm = f.get('pair') or f.get('mol')
                if nm in used:
                    continue
                c = copy.deepcopy(case)
                del c['config'][key][i][j]
                yield c
    for m, sh in cfg['shape'].items():
        if sh != [2, 2, 5]:
            c = copy.deepcopy(case)
            c['config']['shape'][m] = [2, 2, 5]
            yield c
