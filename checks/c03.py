"""C03 — optical depth composes additively over contributions and species.
Model-history machine (DESIGN §5.7): the relations are checked at every point
of a call history on a long-lived TransmissionModel (reused sigma buffers,
contribution list swapped out and restored inside model_contrib /
model_full_contrib, contributions sorted at build()).
"""
import math
import random as pyrandom

import numpy as np

from sim.kernel import Streams, EventLog, Outcome, Violation, H
from sim import realmodel as R
from sim import scenario as S

_warm = False
CUT = math.exp(-10.0)


def warmup():
    global _warm
    if _warm:
        return
    import logging
    import taurex.log
    logging.getLogger('taurex').setLevel(logging.CRITICAL)
    taurex.log.disableLogging()
    rng = pyrandom.Random(1)
    cfg = R.gen_model_cfg(rng, family='transmission',
                          contribs=['Absorption', 'CIA', 'Rayleigh'])
    R.build_model(cfg).model()
    _warm = True


def build(cfg, order=None, without=None):
    """Fresh built model; `without` drops one trace gas from the chemistry."""
    mc = dict(cfg)
    if without:
        mc['molecules'] = [m for m in cfg['molecules'] if m['name'] != without]
    orig = R.make_contribution

    def mk(name, c):
        if name == 'HydrogenIon':
            from taurex.contributions.hm import HydrogenIon
            return HydrogenIon()
        return orig(name, c)
    R.make_contribution = mk
    try:
        return R.build_model(mc, install=False,
                             contrib_order=order or cfg['contribs'])
    finally:
        R.make_contribution = orig


def install(cfg):
    from taurex.cache import OpacityCache
    R.install_opacities(cfg)
    for k in ('H', 'e-'):          # never absorbers here
        OpacityCache().opacity_dict.pop(k, None)


# --------------------------------------------------------------------------
# generation
# --------------------------------------------------------------------------

def generate(run_seed, tier):
    st = Streams(run_seed)
    c = st('config')
    pool = ['CIA', 'Rayleigh', 'SimpleClouds', 'FlatMie', 'LeeMie',
            'HydrogenIon']
    contribs = ['Absorption'] + [x for x in pool if c.random() < 0.45]
    if 'FlatMie' in contribs and 'LeeMie' in contribs and c.random() < 0.9:
        contribs.remove(c.choice(['FlatMie', 'LeeMie']))
    c.shuffle(contribs)
    # (TiO and VO absorb but have no Rayleigh data: the list of scatterers is
    # then shorter than the list of gases)
    mcfg = R.gen_model_cfg(c, family='transmission', contribs=contribs,
                           nmol=c.choice([2, 2, 3]),
                           pool=['H2O', 'CH4', 'CO2', 'CO', 'TiO', 'VO'])
    mcfg['nlayers'] = c.randint(2, 8)
    mcfg['opac']['ngrid'] = c.randint(8, 24)
    mcfg['opac']['logmag'] = c.choice([[-24, -20], [-26, -22], [-22, -17]])
    for m in mcfg['molecules']:
        m['mix'] = 10 ** c.uniform(-8, -4)
        r = c.random()
        if r < 0.25:
            # abundance varying with altitude (a wrong layer index shows)
            m['gas'] = {'kind': 'twopoint', 'surface': 10 ** c.uniform(-6, -4),
                        'top': 10 ** c.uniform(-9, -6)}
            m['mix'] = max(m['gas']['surface'], m['gas']['top'])
        elif r < 0.4:
            m['gas'] = {'kind': 'array', 'values': [
                10 ** c.uniform(-8, -4) for _ in range(c.randint(2, 6))]}
            if c.random() < 0.4:
                # the species is absent from part of the atmosphere
                vals = m['gas']['values']
                for j in c.sample(range(len(vals)), c.randint(1, len(vals) - 1)):
                    vals[j] = 0.0
            m['mix'] = max(m['gas']['values'])
    if 'HydrogenIon' in contribs:
        mcfg['molecules'] += [{'name': 'H', 'mix': 10 ** c.uniform(-5, -3)},
                              {'name': 'e-', 'mix': 10 ** c.uniform(-8, -6)}]
        mcfg['opac']['wn'] = [3000.0, 3000.0 * 10 ** c.uniform(0.4, 0.9)]
    if c.random() < 0.15:
        # a species that starts at exactly zero abundance (raised later)
        m0 = c.choice([m for m in mcfg['molecules']
                       if m['name'] not in ('H', 'e-')])
        m0.pop('gas', None)
        m0['mix'] = 0.0
    mcfg['cia_pairs'] = ['H2-H2', 'H2-He'][:c.randint(1, 2)]
    mcfg['new_path'] = c.random() < 0.3
    if c.random() < 0.12:
        # correlated-k mode: the absorbers come from k-tables on disk (the
        # per-molecule product and the weighting relations do not apply to
        # that source; the composition over SOURCES, the order independence,
        # zero abundance and history independence do)
        mcfg['ktables'] = True
        mcfg['opac']['ngauss_k'] = c.randint(2, 4)
        for m in mcfg['molecules']:
            m.pop('gas', None)
    if c.random() < 0.25 and not mcfg.get('ktables'):
        # one molecule's table on its own wavenumber grid (same end points
        # and length as the others', other spacing)
        mols_ = [m['name'] for m in mcfg['molecules']
                 if m['name'] not in ('H', 'e-')]
        mcfg['opac']['own_grid'] = {c.choice(mols_[1:] or mols_): 'lin'}
    if c.random() < 0.3:
        # CIA tabulated over a narrower temperature range than the layers span
        t0 = c.uniform(900, 1400)
        mcfg['opac']['cia_T'] = [t0, t0 + c.uniform(100, 500)]
    mcfg['clouds_pressure'] = 10 ** c.uniform(2, 5.5)
    mcfg['flatmie'] = {'mix': 10 ** c.uniform(-30, -24),
                       'bottomP': c.choice([-1, 1e5]), 'topP': 10.0}
    mcfg['leemie'] = {'radius': c.uniform(0.005, 0.05), 'q': c.uniform(10, 60),
                      'mix': c.choice([0.0, 10 ** c.uniform(-14, -10),
                                       10 ** c.uniform(-14, -10)]),
                      'bottomP': c.choice([-1, 1e5]),
                      'topP': c.choice([-1, 1e1])}
    mcfg['tp'] = {'kind': 'isothermal', 'T': c.uniform(700, 2200)}
    o = st('ops')
    mols = [m['name'] for m in mcfg['molecules'] if m['name'] not in ('H', 'e-')]
    n = o.randint(3, 25 if tier == 'quick' else 60)
    ops = []
    for _ in range(n):
        r = o.random()
        if r < 0.22:
            ops.append(['model'])
        elif r < 0.32:
            a = o.uniform(0.0, 0.6)
            ops.append(['model_sub', a, a + o.uniform(0.2, 0.4)])
        elif r < 0.44:
            ops.append(['model_contrib'])
        elif r < 0.56:
            ops.append(['model_full_contrib'])
        elif r < 0.62:
            a = o.uniform(0.0, 0.6)
            ops.append([o.choice(['contrib_sub', 'full_sub']), a,
                        a + o.uniform(0.2, 0.4)])
        elif r < 0.68:
            ops.append(['store_contributions', o.choice([1, 3, 6])])
        elif r < 0.74:
            ops.append(['set', 'T', o.uniform(500, 2400)])
        elif r < 0.76:
            # the cache's interpolation mode is changed under the living model
            ops.append(['set_interp', o.choice(['linear', 'exp'])])
        elif r < 0.84:
            ops.append(['set', o.choice(mols), 10 ** o.uniform(-9, -3.5)])
        elif r < 0.865:
            ops.append(['set', 'planet_radius', o.uniform(0.5, 1.6)])
        elif r < 0.88:
            # a haze switched off (exactly zero) or back on
            hz = [h for h in ('flat_mix_ratio', 'lee_mie_mix_ratio')
                  if {'flat_mix_ratio': 'FlatMie',
                      'lee_mie_mix_ratio': 'LeeMie'}[h] in contribs]
            if hz:
                ops.append(['set', o.choice(hz),
                            o.choice([0.0, 0.0, 10 ** o.uniform(-14, -9)])])
                if o.random() < 0.5:
                    ops.append(['model_full_contrib'])
        elif r < 0.92:
            ops.append(['zero', o.choice(mols)])
        elif r < 0.96:
            ops.append(['double', o.choice(mols)])
        else:
            mol = o.choice(mols)
            ops.append(['invalid', mol, o.uniform(1.01, 3.0)])
            for _ in range(o.randint(1, 2)):
                ops.append([o.choice(['model', 'model_contrib',
                                      'model_full_contrib'])])
            ops.append(['set', mol, 10 ** o.uniform(-9, -3.5)])
    if o.random() < 0.2 and len(ops) >= 2:
        # a fault part-way through the path integral: one source raises at
        # one layer during model(); the same model is then used again
        at = o.randint(1, len(ops) - 1)
        ops.insert(at, ['model'])
        ops.insert(at, ['fault_in_integral', o.random(), o.randrange(8)])
    if o.random() < 0.15 and len(ops) >= 2:
        # a source added to the model AFTER it was built (the list is then not
        # re-sorted): composition must not depend on where it sits
        absent = [x for x in ('SimpleClouds', 'Rayleigh', 'CIA')
                  if x not in contribs]
        if absent:
            ops.insert(o.randint(1, len(ops) - 1),
                       ['late_add', o.choice(absent)])
    if 'CIA' in contribs and o.random() < 0.2 and len(ops) >= 2:
        # the list of collision pairs is changed on the living contribution
        # (public setter): other pair, one more, one fewer, other order
        ops.insert(o.randint(1, len(ops) - 1),
                   ['set_cia_pairs', o.choice([['H2-H2'], ['H2-He'],
                                               ['H2-H2', 'H2-He'],
                                               ['H2-He', 'H2-H2']])])
    return {'config': {'model': mcfg, 'obs': S.gen_obs(c, mcfg)}, 'ops': ops}


# --------------------------------------------------------------------------
# execution
# --------------------------------------------------------------------------

class Stop(Exception):
    pass


def t_close(a, b, full_row_ref=None):
    """Transmittances equal to 1e-11 relative, except in layers (rows) where
    the reference full-model row is entirely below exp(-10): there within
    exp(-10) absolute (the licensed saturation cut-off)."""
    a = np.asarray(a, dtype=float)
    b = np.asarray(b, dtype=float)
    if a.shape != b.shape:
        return False, 'shape %s vs %s' % (a.shape, b.shape)
    tol = 1e-11 * np.maximum(np.abs(a), np.abs(b)) + 1e-300
    bad = np.abs(a - b) > tol
    if full_row_ref is not None:
        ref = np.asarray(full_row_ref, dtype=float)
        sat = np.all(ref < CUT, axis=1) | np.all(a < CUT, axis=1) | \
            np.all(b < CUT, axis=1)
        bad[sat] = np.abs(a - b)[sat] > CUT
    if bad.any():
        i = np.argwhere(bad)[0]
        return False, 'layer %d point %d: %r vs %r' % (i[0], i[1],
                                                       a[tuple(i)],
                                                       b[tuple(i)])
    return True, ''


def execute(case, keep_text=False):
    warmup()
    cfg = case['config']['model']
    ops = case['ops']
    out = Outcome()
    log = EventLog(keep_text)

    def viol(cls, key, detail, step=None):
        out.violations.append(Violation(cls, key, detail, step))

    install(cfg)
    ktab = bool(cfg.get('ktables'))
    if ktab:
        import os
        kdir = os.path.join(os.environ.get('VERIF_RUN_SCRATCH', '/dev/shm'),
                            'c03-ktables')
        import shutil
        shutil.rmtree(kdir, ignore_errors=True)
        R.install_ktables(cfg, kdir)
        out.bump('probes', 'correlated_k_mode')
    model = build(cfg)
    built_list = list(model.contribution_list)
    names = [c.name for c in built_list]
    collision = len(set(names)) < len(names)
    params = {}             # current parameter settings (reference)
    mixes = {m['name']: m['mix'] for m in cfg['molecules']}

    class _Inv(object):
        def __getitem__(self, i):
            return sum(mixes.values()) > 1.0

        def __setitem__(self, i, v):
            pass
    invalid = _Inv()
    late = [False]
    bigrams = set()
    prev = None
    has_twin = False

    def fresh(order=None, without=None):
        m = build(cfg, order=order, without=without)
        for k, v in params.items():
            if k in m.fittingParameters:
                m.fittingParameters[k][3](v)
        return m

    def check_list(step, where):
        cur = model.contribution_list
        if len(cur) != len(built_list) or any(a is not b for a, b in
                                              zip(cur, built_list)):
            viol('list-not-restored', where, 'contribution list after %s: %s '
                 '(built: %s)' % (where, [c.name for c in cur], names), step)
            raise Stop()

    def evaluate(step, what, fn, fn_fresh, compare):
        """Run an evaluating op on the long-lived model and on a fresh one."""
        from taurex.exceptions import InvalidModelException
        try:
            got = fn(model)
        except InvalidModelException:
            if invalid[0]:
                out.bump('faults', 'invalid_vector_evaluated')
                out.bump('probes', 'evaluate_while_invalid')
                if model.contribution_list is not built_list and \
                        [id(c) for c in model.contribution_list] != \
                        [id(c) for c in built_list]:
                    # nothing is demanded at the moment of the rejection, and
                    # nothing is repaired here: the next valid evaluation on
                    # this object must be right again (check_list / R6)
                    out.bump('probes', 'swap_left_dirty')
                return None
            viol('unexpected-invalid', what, 'valid atmosphere rejected', step)
            raise Stop()
        except Exception as e:
            import traceback
            viol('evaluate-raised', '%s:%s' % (what, type(e).__name__),
                 '%r\n%s' % (e, traceback.format_exc()[-900:]), step)
            raise Stop()
        if invalid[0]:
            viol('invalid-accepted', what, 'sum of mixing ratios above one was '
                 'evaluated without error', step)
            raise Stop()
        check_list(step, what)
        try:
            ref = fn_fresh(fresh())
        except Exception as e:
            import traceback
            viol('evaluate-raised', '%s:first-call:%s' % (what,
                                                          type(e).__name__),
                 'on a freshly built model (no earlier call): %r\n%s'
                 % (e, traceback.format_exc()[-900:]), step)
            raise Stop()
        compare(got, ref)
        out.bump('steps', 'evaluations')
        return got

    def cmp_model(step, what):
        def cmp(got, ref):
            if not np.array_equal(got[0], ref[0]):
                viol('history-dependence', what + ':grid', 'native grid differs '
                     'from a fresh model at the same parameters', step)
                raise Stop()
            if late[0]:
                # the long-lived list is in another order than a freshly built
                # one: equal up to the licensed saturation cut-off only
                ok, msg = t_close(got[2], ref[2], ref[2])
                if not ok or not np.allclose(got[1], ref[1], rtol=1e-4,
                                             atol=0):
                    viol('composition', 'R3:late-added-source',
                         'a source added after build() changes the result '
                         'beyond the saturation cut-off: %s' % msg, step)
                    raise Stop()
                return
            for idx, nm in ((1, 'spectrum'), (2, 'tau')):
                if not np.allclose(got[idx], ref[idx], rtol=1e-13, atol=0):
                    viol('history-dependence', what + ':' + nm, '%s of the '
                         'long-lived model differs from a fresh model at the '
                         'same parameters (max rel %.3g)'
                         % (nm, float(np.max(np.abs(got[idx] - ref[idx]) /
                                             np.maximum(np.abs(ref[idx]),
                                                        1e-300)))), step)
                    raise Stop()
        return cmp

    def full_T(step):
        """Full-model transmittance on the long-lived model (no fresh twin)."""
        return model.model()[2]

    def relations(step, contrib=None, full=None):
        """R1/R2 on the long-lived model's own outputs."""
        Tfull = full_T(step)
        if contrib is not None:
            grid, d = contrib
            if len(d) != len(built_list):
                dup = sorted(n for n in set(names) if names.count(n) > 1)
                viol('contrib-name-collision', '+'.join(
                    sorted(type(c).__name__ for c in built_list
                           if c.name in dup)),
                     'model_contrib() returned %d entries for %d '
                     'contributions (name(s) %s used twice)'
                     % (len(d), len(built_list), dup), step)
                return
            prod = np.ones_like(Tfull)
            for nme in names:
                prod = prod * d[nme][1]
            ok, msg = t_close(Tfull, prod, Tfull)
            out.bump('steps', 'R1_checked')
            if not ok:
                viol('composition', 'R1:full-vs-product',
                     'full transmittance is not the product over %s: %s'
                     % (names, msg), step)
                raise Stop()
        if full is not None:
            grid, d = full
            if len(d) != len(built_list):
                dup = sorted(n for n in set(names) if names.count(n) > 1)
                viol('contrib-name-collision', '+'.join(
                    sorted(type(c).__name__ for c in built_list
                           if c.name in dup)),
                     'model_full_contrib() returned %d entries for %d '
                     'contributions' % (len(d), len(built_list)), step)
                return
            _, per = model.model_contrib()
            check_list(step, 'model_contrib')
            for nme in names:
                if ktab and nme == 'Absorption':
                    continue      # molecules share the quadrature points
                comps = d[nme]
                prod = np.ones_like(Tfull)
                for cname, absorp, tau, _x in comps:
                    prod = prod * tau
                ok, msg = t_close(per[nme][1], prod)
                out.bump('steps', 'R2_checked')
                if not ok:
                    viol('composition', 'R2:%s' % nme,
                         '%s transmittance is not the product over its '
                         'components %s: %s'
                         % (nme, [c[0] for c in comps], msg), step)
                    raise Stop()
            if sum(len(d[n]) for n in names) >= 3:
                out.bump('probes', 'three_or_more_components')
            reference_components(step, d)

    def reference_components(step, full):
        """R7: each component's slant optical depth recomputed by a plain
        double loop: sum_j w[j+layer] * xsec(T,P)[j+layer] * rho[j+layer]^n *
        dl[layer][j] with w the species' mixing ratio (n=1) or the product of
        both partners' ratios (n=2, CIA).  Geometry (path lengths), density
        and the cross-section lookup are taken from the real model; what is
        decided is the weighting, the layer indexing and the density power."""
        from taurex.cache import OpacityCache, CIACache
        from taurex.util.scattering import rayleigh_sigma_from_name
        grid = model.nativeWavenumberGrid
        rho = np.asarray(model.densityProfile, dtype=float)
        Tp = np.asarray(model.temperatureProfile, dtype=float)
        Pp = np.asarray(model.pressureProfile, dtype=float)
        dl = model.path_length
        nl = model.nLayers
        chem = model.chemistry
        if 'Rayleigh' in full:
            # one component per species that is present anywhere in the
            # atmosphere and has Rayleigh data
            want = sorted(g for g in chem.gases
                          if rayleigh_sigma_from_name(g, grid) is not None
                          and np.max(chem.get_gas_mix_profile(g)) > 0)
            have = sorted(c_[0] for c_ in full['Rayleigh'])
            if want != have:
                viol('composition', 'R7:Rayleigh:components',
                     'Rayleigh components %s, species present with Rayleigh '
                     'data %s' % (have, want), step)
                raise Stop()
        if ktab and 'Absorption' in full:
            # correlated-k: tau = -ln sum_g w_g exp(-sum_j x[j] k_g[j] rho[j]
            # dl[j]) for one molecule (component), and with k_g summed over
            # the molecules for the source
            from taurex.cache.ktablecache import KTableCache
            ksum = None
            wq = None
            for nme, absorp, T_impl, _x in full['Absorption']:
                kt = KTableCache()[nme]
                wq = np.asarray(kt.weights, dtype=float)
                w = np.asarray(chem.get_gas_mix_profile(nme), dtype=float)
                kk = np.array([np.asarray(kt.opacity(Tp[j], Pp[j], grid),
                                          dtype=float) * w[j]
                               for j in range(nl)])      # layer, wn, g
                ksum = kk if ksum is None else ksum + kk
                for label, karr, T_got in ((nme, kk, T_impl),):
                    tg = np.zeros((nl,) + kk.shape[1:])
                    for layer in range(nl):
                        for j in range(nl - layer):
                            tg[layer] += karr[j + layer] * rho[j + layer] * \
                                dl[layer][j]
                    T_ref = np.sum(np.exp(-tg) * wq[None, None, :], axis=2)
                    out.bump('steps', 'R7k_checked')
                    use = (T_ref > 1e-15) & (T_ref < 1 - 1e-9)
                    Tg_ = np.asarray(T_got, dtype=float)
                    if use.any() and np.any(
                            np.abs(np.log(Tg_[use]) - np.log(T_ref[use])) >
                            1e-9 * np.abs(np.log(T_ref[use])) + 1e-12):
                        viol('composition', 'R7:Absorption:ktable',
                             'Absorption/%s: transmittance differs from the '
                             'quadrature sum over mixing-ratio weighted '
                             'k-coefficients' % label, step)
                        raise Stop()
        for cname in ('Absorption', 'CIA', 'Rayleigh'):
            if cname not in full or (ktab and cname == 'Absorption'):
                continue
            for nme, absorp, T_impl, _x in full[cname]:
                if cname == 'Absorption':
                    w = np.asarray(chem.get_gas_mix_profile(nme), dtype=float)
                    xs = np.array([OpacityCache()[nme].opacity(Tp[j], Pp[j],
                                                               grid)
                                   for j in range(nl)])
                    power = 1
                elif cname == 'CIA':
                    a, b = nme.split('-')
                    w = np.asarray(chem.get_gas_mix_profile(a), dtype=float) * \
                        np.asarray(chem.get_gas_mix_profile(b), dtype=float)
                    xs = np.array([CIACache()[nme].cia(Tp[j], grid)
                                   for j in range(nl)])
                    power = 2
                else:
                    w = np.asarray(chem.get_gas_mix_profile(nme), dtype=float)
                    sig = rayleigh_sigma_from_name(nme, grid)
                    xs = np.tile(sig, (nl, 1))
                    power = 1
                tau = np.zeros((nl, len(grid)))
                for layer in range(nl):
                    for j in range(nl - layer):
                        tau[layer] += w[j + layer] * xs[j + layer] * \
                            rho[j + layer] ** power * dl[layer][j]
                with np.errstate(divide='ignore'):
                    t_impl = -np.log(np.asarray(T_impl, dtype=float))
                # -log(T) carries an absolute error of a few eps
                use = (tau > 1e-7) & (tau < 50)
                out.bump('steps', 'R7_checked')
                if use.any() and np.any(np.abs(t_impl[use] - tau[use]) >
                                        1e-9 * tau[use] + 1e-12):
                    j = np.argwhere(use & (np.abs(t_impl - tau) >
                                           1e-9 * tau + 1e-12))[0]
                    viol('composition', 'R7:%s' % cname,
                         '%s/%s: optical depth %r at layer %d differs from '
                         'the mixing-ratio weighted, density^%d sum %r'
                         % (cname, nme, float(t_impl[tuple(j)]), j[0], power,
                            float(tau[tuple(j)])), step)
                    raise Stop()

    def check_stored(step, stored, fresh_binner):
        """What store_contributions hands to the output file, entry by entry,
        against the per-source and per-component results themselves (both
        models run the same storing code, so the history comparison alone
        cannot see an entry filed under the wrong source or component)."""
        ng, per = model.model_contrib()
        _, full = model.model_full_contrib()

        def entry(where, d, flux, tau):
            for key, want in (
                    ('native_spectrum', lambda: flux),
                    ('native_tau', lambda: tau),
                    ('binned_spectrum',
                     lambda: fresh_binner.bindown(ng, flux)[1]),
                    ('binned_tau',
                     lambda: fresh_binner.bindown(ng, tau)[1])):
                if key not in d:
                    continue
                a = np.asarray(d[key], dtype=float)
                b = np.asarray(want(), dtype=float)
                out.bump('steps', 'stored_entries_checked')
                if a.shape != b.shape or not np.allclose(
                        a, b, rtol=1e-12, atol=0, equal_nan=True):
                    viol('stored-contributions', key,
                         '%s: stored %s is not that of this source/component'
                         % (where, key), step)
                    raise Stop()
        for cname, (flux, tau, _x) in per.items():
            if cname not in stored:
                viol('stored-contributions', 'missing', cname, step)
                raise Stop()
            entry(cname, stored[cname], flux, tau)
            for nme, cflux, ctau, _cx in full[cname]:
                if nme not in stored[cname]:
                    viol('stored-contributions', 'missing',
                         '%s/%s' % (cname, nme), step)
                    raise Stop()
                entry('%s/%s' % (cname, nme), stored[cname][nme], cflux, ctau)

    def window_covers_own_grids(sub):
        """A molecule tabulated on its own (other) grid can only be
        interpolated onto a window that holds at least two of its points (with
        the tiny grids used here a narrow window may fall between two)"""
        own = cfg['opac'].get('own_grid') or {}
        if not own:
            return True
        wn_ = S.native_grid(cfg)
        lin = np.linspace(wn_[0], wn_[-1], len(wn_))
        inside = int(np.sum((lin >= sub.min()) & (lin <= sub.max())))
        if inside < 2:
            out.bump('probes', 'window_between_own_grid_points_skipped')
        return inside >= 2

    obs = S.build_obs(case['config']['obs'])
    try:
        check_list(-1, 'build')
        for step, op in enumerate(ops):
            k = op[0]
            if prev is not None:
                bigrams.add((prev, k))
            prev = k
            out.bump('steps', 'ops')
            log.add('drv', 'op', op)
            if k == 'model':
                got = evaluate(step, 'model', lambda m: m.model(),
                               lambda m: m.model(), cmp_model(step, 'model'))
                if got is not None and not has_twin and len(built_list) > 1:
                    # R3: reversed add order
                    has_twin = True
                    tw = fresh(order=list(reversed(cfg['contribs'])))
                    Tt = tw.model()[2]
                    ok, msg = t_close(got[2], Tt, got[2])
                    out.bump('steps', 'R3_checked')
                    if not ok:
                        viol('composition', 'R3:add-order',
                             'transmittance depends on the order in which '
                             'contributions were added: %s' % msg, step)
                        raise Stop()
                if got is not None:
                    log.add('model', 'spectrum', got[1])
            elif k == 'model_sub':
                wn = S.native_grid(cfg)
                lo = wn[0] + op[1] * (wn[-1] - wn[0])
                hi = wn[0] + min(op[2], 1.0) * (wn[-1] - wn[0])
                sub = wn[(wn >= lo) & (wn <= hi)]
                if len(sub) < 2 or not window_covers_own_grids(sub):
                    continue
                evaluate(step, 'model_sub', lambda m: m.model(wngrid=sub),
                         lambda m: m.model(wngrid=sub),
                         cmp_model(step, 'model_sub'))
            elif k in ('model_contrib', 'model_full_contrib', 'contrib_sub',
                       'full_sub'):
                sub = None
                if k.endswith('_sub'):
                    # per-contribution / per-component evaluation restricted
                    # to a sub-range of the native grid
                    wn = S.native_grid(cfg)
                    lo = wn[0] + op[1] * (wn[-1] - wn[0])
                    hi = wn[0] + min(op[2], 1.0) * (wn[-1] - wn[0])
                    sub = wn[(wn >= lo) & (wn <= hi)]
                    if len(sub) < 2 or not window_covers_own_grids(sub):
                        continue
                    k = 'model_contrib' if k == 'contrib_sub' \
                        else 'model_full_contrib'

                def cmp(got, ref, k=k):
                    if sorted(got[1]) != sorted(ref[1]):
                        viol('history-dependence', k + ':keys', '%s vs %s'
                             % (sorted(got[1]), sorted(ref[1])), step)
                        raise Stop()
                    for nme in got[1]:
                        a, b = got[1][nme], ref[1][nme]
                        if k == 'model_contrib':
                            pa, pb = [a[1]], [b[1]]
                        else:
                            if [c[0] for c in a] != [c[0] for c in b]:
                                viol('history-dependence', k + ':components',
                                     '%s: %s vs %s' % (nme, [c[0] for c in a],
                                                       [c[0] for c in b]), step)
                                raise Stop()
                            pa = [c[2] for c in a]
                            pb = [c[2] for c in b]
                        for x, y in zip(pa, pb):
                            if not np.allclose(x, y, rtol=1e-13, atol=0):
                                viol('history-dependence', k + ':' + nme,
                                     'differs from a fresh model at the same '
                                     'parameters', step)
                                raise Stop()
                if sub is not None:
                    got = evaluate(step, k + ':sub',
                                   lambda m: getattr(m, k)(wngrid=sub),
                                   lambda m: getattr(m, k)(wngrid=sub), cmp)
                    check_list(step, k)
                    if got is not None and not collision:
                        out.bump('probes', 'parts_on_sub_grid')
                        if k == 'model_contrib':
                            Tsub = model.model(wngrid=sub)[2]
                            prod = np.ones_like(Tsub)
                            for nme in names:
                                prod = prod * got[1][nme][1]
                            ok, msg = t_close(Tsub, prod, Tsub)
                            if not ok:
                                viol('composition', 'R1:full-vs-product:sub',
                                     'on a sub-range: full transmittance is '
                                     'not the product over %s: %s'
                                     % (names, msg), step)
                                raise Stop()
                        else:
                            _, per = model.model_contrib(wngrid=sub)
                            for nme in names:
                                if ktab and nme == 'Absorption':
                                    continue
                                prod = np.ones_like(per[nme][1])
                                for cname, absorp, tau, _x in got[1][nme]:
                                    prod = prod * tau
                                ok, msg = t_close(per[nme][1], prod)
                                if not ok:
                                    viol('composition', 'R2:%s:sub' % nme,
                                         'on a sub-range: %s transmittance is '
                                         'not the product over its components'
                                         ': %s' % (nme, msg), step)
                                    raise Stop()
                        check_list(step, k)
                    continue
                got = evaluate(step, k, lambda m: getattr(m, k)(),
                               lambda m: getattr(m, k)(), cmp)
                if got is not None:
                    if k == 'model_contrib':
                        relations(step, contrib=got)
                    else:
                        relations(step, full=got)
                    check_list(step, k)
            elif k == 'store_contributions':
                from taurex.util.output import store_contributions
                from taurex import OutputSize
                binner = obs.create_binner()

                def run(m):
                    return store_contributions(binner, m,
                                               output_size=OutputSize(op[1]))

                def cmp(got, ref):
                    from sim.kernel import canon
                    if canon(got) != canon(ref):
                        a, b = sorted(got), sorted(ref)
                        viol('history-dependence', 'store_contributions',
                             'stored contributions differ from a fresh model '
                             '(groups %s vs %s)' % (a, b), step)
                        raise Stop()
                if not collision:
                    got = evaluate(step, 'store_contributions', run, run, cmp)
                    if got is not None:
                        check_stored(step, got, obs.create_binner())
            elif k == 'fault_in_integral':
                if invalid[0]:
                    continue
                from taurex.exceptions import InvalidModelException
                victim = built_list[op[2] % len(built_list)]
                at_layer = min(int(op[1] * model.nLayers), model.nLayers - 1)
                real = victim.contribute
                fired = []

                def faulty(mdl, start, end, off, layer, *a, **kw):
                    if layer == at_layer:
                        fired.append(layer)
                        raise InvalidModelException('injected fault in layer '
                                                    '%d' % layer)
                    return real(mdl, start, end, off, layer, *a, **kw)
                victim.contribute = faulty
                try:
                    model.model()
                except InvalidModelException:
                    pass
                finally:
                    del victim.contribute
                if fired:
                    out.bump('faults', 'exception_inside_path_integral')
                    out.bump('probes', 'model_used_after_fault_in_integral')
            elif k == 'late_add':
                if late[0] or op[1] in cfg['contribs']:
                    continue
                cfg = dict(cfg)
                cfg['contribs'] = list(cfg['contribs']) + [op[1]]
                if op[1] == 'CIA':
                    from taurex.cache import CIACache
                    _, cias_ = R.opac_tables(cfg['opac'], [],
                                             cfg.get('cia_pairs', []))
                    for pr_ in cfg.get('cia_pairs', []):
                        if pr_ not in CIACache().cia_dict:
                            CIACache().add_cia(R.MemCIA(pr_, *cias_[pr_]))
                model.add_contribution(R.make_contribution(op[1], cfg))
                built_list = list(model.contribution_list)
                names = [c_.name for c_ in built_list]
                collision = len(set(names)) < len(names)
                late[0] = True
                out.bump('probes', 'source_added_after_build')
            elif k == 'set_cia_pairs':
                cia_c = [c_ for c_ in model.contribution_list
                         if c_.name == 'CIA']
                if not cia_c or list(op[1]) == list(cfg.get('cia_pairs', [])):
                    continue
                from taurex.cache import CIACache
                cfg = dict(cfg)
                cfg['cia_pairs'] = list(op[1])
                _, cias_ = R.opac_tables(cfg['opac'], [], cfg['cia_pairs'])
                for pr_ in cfg['cia_pairs']:
                    if pr_ not in CIACache().cia_dict:
                        CIACache().add_cia(R.MemCIA(pr_, *cias_[pr_]))
                cia_c[0].ciaPairs = list(op[1])
                out.bump('probes', 'collision_pairs_changed_after_build')
            elif k == 'set_interp':
                if ktab:
                    continue
                from taurex.cache import OpacityCache
                OpacityCache().set_interpolation(op[1])
                R.readd_opacities(cfg, op[1])
                for kk in ('H', 'e-'):
                    OpacityCache().opacity_dict.pop(kk, None)
                out.bump('probes', 'interpolation_mode_changed_under_model')
            elif k == 'set':
                if op[1] in model.fittingParameters:
                    model.fittingParameters[op[1]][3](op[2])
                    params[op[1]] = op[2]
                    if op[1] in mixes:
                        mixes[op[1]] = op[2]
            elif k in ('zero', 'double'):
                mol = op[1]
                if mol not in model.fittingParameters or invalid[0]:
                    continue
                if ktab and k == 'double':
                    continue      # (proportionality is a cross-section clause)
                cur = model.fittingParameters[mol][2]()
                if k == 'zero':
                    # R4: a species at zero abundance changes nothing
                    model.fittingParameters[mol][3](0.0)
                    params[mol] = 0.0
                    mixes[mol] = 0.0
                    try:
                        _, full = model.model_full_contrib()
                        res = model.model()
                    except Exception as e:
                        viol('evaluate-raised', 'zero:%s' % type(e).__name__,
                             repr(e), step)
                        raise Stop()
                    check_list(step, 'zero')
                    for cname, comps in full.items():
                        for nme, absorp, tau, _x in comps:
                            if nme == mol and not (
                                    np.all(tau == 1.0) or (ktab and np.all(
                                        np.abs(tau - 1.0) <= 1e-12))):
                                # (quadrature weights sum to one only up to
                                # round-off in correlated-k mode)
                                viol('composition', 'R4:zero-not-transparent',
                                     '%s/%s at zero abundance has '
                                     'transmittance != 1 (min %r)'
                                     % (cname, nme, float(np.min(tau))), step)
                                raise Stop()
                    ref = fresh(without=mol)
                    rr = ref.model()
                    if not np.array_equal(res[0], rr[0]):
                        # without this molecule the model lives on another
                        # molecule's native grid: not comparable point by point
                        out.bump('probes', 'absent_changes_native_grid')
                        continue
                    ok, msg = t_close(res[2], rr[2], res[2])
                    out.bump('steps', 'R4_checked')
                    if not ok or not np.allclose(
                            res[1], rr[1], rtol=1e-4 if late[0] else 1e-11,
                            atol=0):
                        viol('composition', 'R4:zero-vs-absent',
                             'spectrum with %s at zero abundance differs from '
                             'a model built without it: %s' % (mol, msg), step)
                        raise Stop()
                else:
                    # R5: a component's weighted opacity is proportional to
                    # its abundance (trace gas: structure moves by < 1e-5)
                    if not (0 < cur <= 5e-7):
                        continue
                    try:
                        _, f1 = model.model_full_contrib()
                        model.fittingParameters[mol][3](2 * cur)
                        params[mol] = 2 * cur
                        mixes[mol] = 2 * cur
                        _, f2 = model.model_full_contrib()
                    except Exception as e:
                        viol('evaluate-raised', 'double:%s' % type(e).__name__,
                             repr(e), step)
                        raise Stop()
                    check_list(step, 'double')
                    out.bump('steps', 'R5_checked')
                    for cname in f1:
                        if cname not in f2:
                            continue
                        for c1, c2 in zip(f1[cname], f2[cname]):
                            t1 = np.asarray(c1[2], dtype=float)
                            t2 = np.asarray(c2[2], dtype=float)
                            with np.errstate(divide='ignore', invalid='ignore'):
                                a1 = -np.log(t1)
                                a2 = -np.log(t2)
                            use = (a1 > 1e-5) & (a1 < 20) & np.isfinite(a2)
                            if not use.any():
                                continue
                            ratio = a2[use] / a1[use]
                            own = (c1[0] == mol) and cname in ('Absorption',
                                                               'Rayleigh')
                            want = 2.0 if own else 1.0
                            if np.any(np.abs(ratio - want) > 2e-4 * want):
                                viol('composition',
                                     'R5:%s' % ('own' if own else 'other'),
                                     'doubling %s changed -ln T of %s/%s by a '
                                     'factor %r (expected %r)'
                                     % (mol, cname, c1[0],
                                        float(ratio[np.argmax(
                                            np.abs(ratio - want))]), want),
                                     step)
                                raise Stop()
            elif k == 'invalid':
                mol = op[1]
                if mol in model.fittingParameters:
                    model.fittingParameters[mol][3](op[2])
                    params[mol] = op[2]
                    mixes[mol] = op[2]
                    out.bump('faults', 'invalid_vector_set')
            else:
                raise ValueError(op)
    except Stop:
        pass
    out.digest = log.digest()
    out.signature = '%x' % H(tuple(sorted(cfg['contribs'])),
                             tuple(cfg['contribs']),
                             tuple(sorted(bigrams)))
    out.nontrivial = len(cfg['contribs']) >= 2 or \
        len([m for m in cfg['molecules']]) >= 2
    return out


def simplify(case):
    import copy
    m = case['config']['model']
    for x in list(m['contribs']):
        if x == 'Absorption' or len(m['contribs']) <= 1:
            continue
        c = copy.deepcopy(case)
        c['config']['model']['contribs'].remove(x)
        yield c
    if m['nlayers'] > 3:
        c = copy.deepcopy(case)
        c['config']['model']['nlayers'] = 3
        yield c
    if m['opac']['ngrid'] > 8:
        c = copy.deepcopy(case)
        c['config']['model']['opac']['ngrid'] = 8
        yield c
    if m.get('new_path'):
        c = copy.deepcopy(case)
        c['config']['model']['new_path'] = False
        yield c
    used = set(op[1] for op in case['ops'] if len(op) > 1
               and isinstance(op[1], str))
    mols = [x['name'] for x in m['molecules'] if x['name'] not in ('H', 'e-')]
    if len(mols) > 1:
        for nm in mols:
            if nm in used:
                continue
            c = copy.deepcopy(case)
            c['config']['model']['molecules'] = [
                x for x in m['molecules'] if x['name'] != nm]
            yield c
