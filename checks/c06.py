"""C06 — every sampler is handed the Gaussian log-likelihood of the binned model.
Sampler-session simulation (DESIGN §5.2): the sampler entry points are doubles
that play the sampler's side of the protocol from an explicit op list; every
callback is checked against an independent oracle during the run.
"""
import math
import os
import random as pyrandom

import numpy as np

from sim.kernel import Streams, EventLog, Outcome, Violation, H
from sim import models as M
from sim import realmodel as R
from sim import scenario as S
from sim import refs
from sim import samplers

_warm = False


def warmup():
    global _warm
    if _warm:
        return
    import logging
    import taurex.log
    logging.getLogger('taurex').setLevel(logging.CRITICAL)
    taurex.log.disableLogging()
    samplers.install()
    rng = pyrandom.Random(1)
    for fam in ('transmission', 'emission'):
        cfg = R.gen_model_cfg(rng, family=fam,
                              contribs=['Absorption', 'CIA', 'Rayleigh'])
        R.build_model(cfg).model()
    _warm = True


def make_faulty():
    from taurex.contributions import Contribution
    from taurex.exceptions import InvalidModelException

    class FaultyContribution(Contribution):
        """Adds no opacity; raises InvalidModelException once when armed
        (legal by the API: hm.py does the same for out-of-range input)."""

        def __init__(self):
            super().__init__('Faulty')
            self.armed = None
            self.fired = 0

        def prepare_each(self, model, wngrid):
            self._ngrid = wngrid.shape[0]
            self._nlayers = model.nLayers
            if self.armed == 'prepare':
                self.armed = None
                self.fired += 1
                raise InvalidModelException('injected fault in prepare')
            return
            yield

        def contribute(self, model, start_layer, end_layer, density_offset,
                       layer, density, tau, path_length=None):
            if self.armed == 'contribute':
                self.armed = None
                self.fired += 1
                raise InvalidModelException('injected fault in contribute')

    return FaultyContribution()


# --------------------------------------------------------------------------
# generation
# --------------------------------------------------------------------------

def gen_toy(c):
    n = c.randint(1, 4)
    mp = []
    for i in range(n):
        lo = 10 ** c.uniform(-2, 0)
        hi = lo * 10 ** c.uniform(0.3, 1.5)
        mp.append({'name': 'p%d' % i, 'mode': c.choice(['linear', 'log']),
                   'fit': False, 'bounds': [lo, hi],
                   'value': lo + c.random() * (hi - lo)})
    op = []
    if c.random() < 0.5:
        op.append({'name': 'q0', 'mode': 'linear', 'fit': False,
                   'bounds': [0.1, 2.0], 'value': 0.5})
    if c.random() < 0.3:
        # error inflation: an observation-side parameter that rescales sigma
        op.append({'name': 'einf', 'mode': 'linear', 'fit': False,
                   'bounds': [0.5, 3.0], 'value': 1.0, 'inflate': True})
    ngrid = c.randint(3, 8)
    cfg = {'kind': 'toy', 'mparams': mp, 'mderived': [], 'oparams': op,
           'oderived': [], 'ngrid': ngrid,
           'obs_y': [c.uniform(0.5, 30) for _ in range(ngrid)],
           'obs_err': [10 ** c.uniform(-2, 0) for _ in range(ngrid)],
           'invalid_above': None}
    if c.random() < 0.25:
        # two-dimensional data (as a light curve has): rows x grid
        nrow = c.randint(2, 4)
        cfg['rows2d'] = [c.uniform(0.5, 1.5) for _ in range(nrow)]
        cfg['obs_y'] = [[c.uniform(0.5, 30) for _ in range(ngrid)]
                        for _ in range(nrow)]
        cfg['obs_err'] = [[10 ** c.uniform(-2, 0) for _ in range(ngrid)]
                          for _ in range(nrow)]
    fit = []
    names = [p['name'] for p in mp + op]
    k = c.randint(1, len(names))
    for nme in c.sample(names, k):
        p = [q for q in mp + op if q['name'] == nme][0]
        lo, hi = p['bounds']
        kind = c.choice(['Uniform', 'LogUniform', 'Gaussian', 'LogGaussian',
                         'LnUniform', 'CosUniform'])
        if kind == 'Uniform':
            spec = {'kind': kind, 'args': {'bounds': [lo, hi]}}
        elif kind == 'CosUniform':
            # a plug-in derived from the built-in Uniform (bounds are angles
            # in degrees; the toy parameter takes the angle as its value)
            a0 = c.uniform(0.5, 40)
            spec = {'kind': kind, 'args': {'bounds': [a0, a0 + c.uniform(5, 45)]}}
        elif kind == 'LnUniform':
            # a plug-in prior written against the public Prior base class
            spec = {'kind': kind, 'args': {'bounds': [math.log(lo),
                                                      math.log(hi)]}}
        elif kind == 'LogUniform':
            spec = {'kind': kind, 'args': {'lin_bounds': [lo, hi]}}
        elif kind == 'Gaussian':
            spec = {'kind': kind, 'args': {'mean': 0.5 * (lo + hi),
                                           'std': (hi - lo) / 12}}
        else:
            la, lb = math.log10(lo), math.log10(hi)
            spec = {'kind': kind, 'args': {'mean': 0.5 * (la + lb),
                                           'std': (lb - la) / 12}}
        fit.append({'name': nme, 'mode': c.choice(['linear', 'log']),
                    'prior': spec, 'set_prior': True})
    if c.random() < 0.6:
        # invalid region of positive volume in the unit cube
        tot_hi = sum(p['bounds'][1] for p in mp)
        tot_lo = sum(p['bounds'][0] for p in mp)
        cfg['invalid_above'] = tot_lo + (tot_hi - tot_lo) * c.uniform(0.3, 0.9) \
            + sum(q['value'] for q in op if not q.get('inflate'))
    return cfg, fit


def gen_real(c):
    mcfg = R.gen_model_cfg(c)
    R.add_extra_contribs(c, mcfg, p=0.25)
    mcfg['nlayers'] = c.randint(2, 7)
    mcfg['opac']['ngrid'] = c.randint(12, 30)
    wide = c.random() < 0.6 and len(mcfg['molecules']) >= 1
    twop = None
    if mcfg['molecules'] and c.random() < 0.3:
        # an abundance that varies with altitude: the atmosphere can be
        # invalid (sum above unity) in some layers only
        m0 = mcfg['molecules'][0]
        m0['gas'] = {'kind': 'twopoint', 'surface': m0['mix'],
                     'top': m0['mix'] * 10 ** c.uniform(-3, -1)}
        twop = m0['name']
    fit = S.gen_fit(c, mcfg, nmax=4, rich=True)
    if twop:
        fit = [f for f in fit if f['name'] != twop]
        fit.append({'name': twop + '_surface',
                    'mode': c.choice(['linear', 'log']), 'set_prior': True,
                    'prior': c.choice([
                        {'kind': 'LogUniform', 'args': {'lin_bounds': [1e-7, 3.0]}},
                        {'kind': 'Uniform', 'args': {'bounds': [1e-7, 2.0]}}])})
        wide = True
    if wide:
        # make the invalid region (sum of mixing ratios > 1) reachable
        have = {f['name'] for f in fit}
        for m in mcfg['molecules'][:2]:
            if m['name'] == twop:
                continue
            spec = c.choice([
                {'kind': 'LogUniform', 'args': {'lin_bounds': [1e-7, 0.95]}},
                {'kind': 'Uniform', 'args': {'bounds': [1e-7, 0.95]}}])
            if m['name'] in have:
                for f in fit:
                    if f['name'] == m['name']:
                        f['prior'] = spec
            else:
                fit.append({'name': m['name'],
                            'mode': c.choice(['linear', 'log']),
                            'prior': spec, 'set_prior': True})
    if mcfg['tp']['kind'] == 'guillot' and c.random() < 0.5:
        # a temperature parameter whose prior reaches the invalid region
        # (negative irradiation temperature: the profile refuses it)
        fit = [f for f in fit if f['name'] != 'T_irr']
        fit.append({'name': 'T_irr', 'mode': 'linear', 'set_prior': True,
                    'signed': True,
                    'prior': c.choice([
                        {'kind': 'Uniform', 'args': {'bounds': [-900.0, 2200.0]}},
                        {'kind': 'Gaussian', 'args': {'mean': 300.0,
                                                      'std': 500.0}}])})
        wide = True
    # derived parameters switched on or off (the callbacks owe the sampler
    # nothing about them)
    mcfg['derived'] = [] if c.random() < 0.4 else \
        [d_ for d_ in ('mu', 'logg', 'avg_T') if c.random() < 0.6]
    return mcfg, fit, wide


def gen_session(o, ndim, k, wide):
    ops = []
    nstored = 0
    burst = 0
    for _ in range(k):
        r = o.random()
        if burst > 0:
            u = [o.uniform(0.93, 0.9999) for _ in range(ndim)]
            ops.append(['like_u', u])
            burst -= 1
            nstored += 1
            continue
        if r < 0.12:
            ops.append(['prior', _cube(o, ndim)])
        elif r < 0.55:
            ops.append(['like_u', _cube(o, ndim)])
            nstored += 1
        elif r < 0.65 and nstored:
            ops.append(['like_old', o.randrange(10**6)])
        elif r < 0.75:
            ops.append(['like_last'])
        elif r < 0.85 and wide:
            burst = o.choice([1, 1, 2, 5])
        elif r < 0.92:
            ops.append(['arm_fault', o.choice(['prepare', 'contribute'])])
        else:
            ops.append(['like_u', _cube(o, ndim, corner=True)])
            nstored += 1
    return ops


def _cube(o, ndim, corner=False):
    if corner:
        # (exact 0 and 1 are replaced by 1e-12 / 1-1e-12 at run time for
        # priors of unbounded support)
        return [o.choice([1e-12, 0.5, 1 - 1e-12, 0.999, 0.0, 1.0])
                for _ in range(ndim)]
    return [o.uniform(0.001, 0.999) for _ in range(ndim)]


def generate(run_seed, tier):
    st = Streams(run_seed)
    c = st('config')
    sampler = c.choice(['nestle', 'multinest', 'polychord'])
    if c.random() < 0.35:
        mcfg, fit = gen_toy(c)
        wide = mcfg['invalid_above'] is not None
        cfg = {'sampler': sampler, 'model': mcfg, 'fit': fit, 'obs': None}
    else:
        mcfg, fit, wide = gen_real(c)
        mcfg['kind'] = 'real'
        cfg = {'sampler': sampler, 'model': mcfg, 'fit': fit,
               'obs': S.gen_obs(c, mcfg)}
    S.default_prior_share(c, fit)
    cfg['faulty'] = c.random() < 0.6
    cfg['wide'] = wide
    # non-default options of the wrappers (they must not change what the
    # callbacks compute)
    oc = st('options')
    cfg['options'] = {
        'nestle': {'method': oc.choice(['multi', 'single', 'classic']),
                   'tol': oc.choice([0.5, 5.0, 0.01]),
                   'num_live_points': oc.choice([5, 50, 1500])},
        'multinest': {'importance_sampling': oc.random() < 0.4,
                      'search_multi_modes': oc.random() < 0.5,
                      'constant_efficiency_mode': oc.random() < 0.3,
                      'sampling_efficiency': oc.choice(['parameter', 0.3]),
                      'num_live_points': oc.choice([5, 400]),
                      'max_iterations': oc.choice([0, 1000]),
                      'resume': oc.random() < 0.2,
                      'verbose_output': oc.random() < 0.5,
                      'multinest_prefix': oc.choice(['1-', 'run_', 'x-'])},
        'polychord': {'cluster': oc.random() < 0.5,
                      'num_live_points': oc.choice([5, 400]),
                      'max_iterations': oc.choice([0, 1000]),
                      'resume': oc.random() < 0.2,
                      'verbosity': oc.choice([0, 1, 3])},
    }[sampler]
    for f in fit:
        # the public set_mode accepts any spelling
        f['mode_spelling'] = oc.choice(['lower', 'lower', 'upper', 'title'])
    o = st('ops')
    kmax = 120 if tier == 'quick' else 400
    k = o.randint(5, kmax) if o.random() < 0.8 else o.randint(1, 10)
    ops = gen_session(o, len(fit), k, wide)
    if not cfg['faulty']:
        ops = [op for op in ops if op[0] != 'arm_fault']
    if c.random() < 0.08:
        cfg['exact_fit'] = [c.uniform(0.2, 0.8) for _ in fit]
        ops.insert(o.randint(0, len(ops)), ['like_u', list(cfg['exact_fit'])])
    elif o.random() < 0.35 and len(ops) >= 4:
        # the same long-lived optimizer is re-configured and fitted again
        r = st('refit')
        cur = fit
        for pos in sorted(r.sample(range(1, len(ops)), r.choice([1, 1, 2]))):
            cur = S.mutate_fit(r, cur, fit)
            nd = len(cur)
            ops[pos] = ['refit', cur]
            if cfg['obs'] is not None and r.random() < 0.4:
                # ... and is handed another observation (other bin layout, or
                # the same bin centres with narrower bins and other values)
                if len(cfg['obs']['rows'][0]) == 4 and r.random() < 0.4:
                    f_ = r.uniform(0.8, 0.95)
                    ops[pos].append({'rows': [
                        [row[0], row[1] * r.uniform(0.97, 1.03), row[2],
                         row[3] * f_] for row in cfg['obs']['rows']]})
                else:
                    ops[pos].append(S.gen_obs(r, mcfg))
            else:
                ops[pos].append(None)
            # ... or another (fresh) model object of the same configuration
            ops[pos].append(r.random() < 0.25)
            for j in range(pos + 1, len(ops)):
                if ops[j][0] == 'refit':
                    break
                if ops[j][0] in ('prior', 'like_u'):
                    u = ops[j][1]
                    ops[j][1] = (u + [r.uniform(0.001, 0.999)
                                      for _ in range(nd)])[:nd]
    return {'config': cfg, 'ops': ops}


# --------------------------------------------------------------------------
# execution
# --------------------------------------------------------------------------

def _build(cfg, with_faulty):
    """(model, obs, faulty) -- fresh objects from config."""
    mcfg = cfg['model']
    faulty = None
    if mcfg.get('kind') == 'toy':
        model, obs = M.build_toy(mcfg)
        if cfg.get('obs_override'):
            obs._y = np.array(cfg['obs_override'], dtype=float)
        return model, obs, None
    model = R.build_model(mcfg, install=False) if not with_faulty else None
    if with_faulty:
        # build by hand so that the faulty contribution is part of the model
        from taurex.data.profiles.chemistry import TaurexChemistry
        model = _build_real_with(mcfg)
        faulty = [c for c in model.contribution_list
                  if c.name == 'Faulty'][0]
    rows = cfg['obs']['rows']
    if cfg.get('obs_override'):
        rs = sorted(range(len(rows)), key=lambda i: -rows[i][0])
        rows = [list(r) for r in rows]
        for j, i in enumerate(rs):
            rows[i][1] = cfg['obs_override'][j]
    obs = S.build_obs({'rows': rows})
    return model, obs, faulty


def _build_real_with(mcfg):
    orig = R.make_contribution
    f = make_faulty()

    def mk(name, cfg):
        if name == 'Faulty':
            return f
        return orig(name, cfg)
    R.make_contribution = mk
    try:
        return R.build_model(mcfg, install=False,
                             contrib_order=list(mcfg['contribs']) + ['Faulty'])
    finally:
        R.make_contribution = orig


class Stop(Exception):
    pass


def execute(case, keep_text=False):
    warmup()
    cfg = case['config']
    ops = case['ops']
    out = Outcome()
    log = EventLog(keep_text)
    kind = cfg['sampler']
    mcfg = cfg['model']
    is_toy = mcfg.get('kind') == 'toy'
    fit = cfg['fit']
    fit_by_name = {f['name']: f for f in fit}

    def viol(cls, key, detail, step=None):
        out.violations.append(Violation(cls, key, detail, step))

    if not is_toy:
        R.install_opacities(mcfg)
    use_faulty = bool(cfg.get('faulty')) and not is_toy
    cfg = dict(cfg)
    # reference objects: a model used only to learn the table order; every
    # likelihood oracle builds its own fresh model
    model0, obs0, _ = _build(cfg, False)
    order = S.fit_order(model0, obs0, fit)
    specs = [fit_by_name[n]['prior'] for n in order]
    ndim = len(order)
    fitted = set(order)
    written = {}      # name -> last linear value any session wrote

    def current_value(name):
        if name in written:
            return written[name]
        for own in ('m', 'o'):
            if (own, name) in baseline:
                return baseline[(own, name)]
        raise KeyError(name)

    def enter_segment(newfit):
        nonlocal fit, fit_by_name, order, specs, ndim, fitted
        fit = S.resolve_factors(newfit, current_value)
        fit_by_name = {f['name']: f for f in fit}
        order = S.fit_order(model0, obs0, fit)
        specs = [fit_by_name[n]['prior'] for n in order]
        ndim = len(order)
        fitted = set(order)
    if cfg.get('exact_fit'):
        th = S.sample_theta(fit_by_name, order, cfg['exact_fit'])
        S.ref_set(model0, obs0, fit_by_name, order, th)
        try:
            res = model0.model(wngrid=obs0.wavenumberGrid)
            yb = obs0.create_binner().bin_model(res)[1]
            off = 0.0
            if is_toy:
                off = sum(v for k_, v in obs0._values.items()
                          if k_ not in obs0._inflate)
            cfg['obs_override'] = (np.asarray(yb, dtype=float) - off).tolist()
            out.bump('probes', 'exact_fit_run')
        except Exception:
            cfg.pop('exact_fit')
        model0, obs0, _ = _build(cfg, False)

    model, obs, faulty = _build(cfg, use_faulty)
    scratch = os.environ.get('VERIF_RUN_SCRATCH', '/dev/shm')
    chain = os.path.join(scratch, 'chains-c06')
    os.makedirs(chain, exist_ok=True)
    klass = samplers.optimizer_classes()[kind]
    okw = dict(cfg.get('options') or {})
    if kind == 'nestle':
        okw.setdefault('num_live_points', 5)
        opt = klass(observed=obs, model=model, **okw)
    elif kind == 'multinest':
        okw.setdefault('num_live_points', 5)
        opt = klass(multi_nest_path=chain, observed=obs, model=model, **okw)
    else:
        opt = klass(polychord_path=chain, observed=obs, model=model, **okw)
    S.configure_optimizer(opt, fit, derived=cfg['model'].get('derived', []),
                          model=model, observed=obs)

    baseline = {}
    for n, t in list(model.fittingParameters.items()):
        baseline[('m', n)] = t[2]()
    for n, t in list(obs.fittingParameters.items()):
        baseline[('o', n)] = t[2]()

    # observation in ascending-wavenumber order, taken from a fresh object
    y_obs = np.array(obs0.spectrum, dtype=float)
    s_obs = np.array(obs0.errorBar, dtype=float)
    pattern = []
    state = {'last': None, 'stored': [], 'pending_fault': None,
             'after_fault': False}

    def oracle(theta):
        """('valid', L) | ('invalid', None) | ('skip', reason)."""
        from taurex.exceptions import InvalidModelException
        m2, o2, _ = _build(cfg, False)
        for n, lin in written.items():
            # what earlier sessions left behind in parameters no longer fitted
            if n not in fitted:
                (m2 if n in m2.fittingParameters
                 else o2).fittingParameters[n][3](lin)
        S.ref_set(m2, o2, fit_by_name, order, theta)
        try:
            if is_toy:
                x, ym, _, _ = m2.model()
                yb = [float(v) for v in np.ravel(ym)]
                yo = [float(v) for v in np.ravel(o2.spectrum)]
                so = [float(v) for v in np.ravel(o2.errorBar)]
                ym = yb
            else:
                ng, ym, _, _ = m2.model(wngrid=o2.wavenumberGrid)
                yb = refs.ref_bin(list(ng), list(ym), list(o2.wavenumberGrid),
                                  list(o2.binWidths))
                yo = list(o2.spectrum)
                so = list(o2.errorBar)
        except InvalidModelException:
            return 'invalid', None
        except Exception as e:     # not an invalid-atmosphere signal
            return 'skip', repr(e)
        if not is_toy:
            # the definition, not the twin's own verdict: the mixing ratios
            # of the added gases sum above unity in ANY layer
            gases_ = list(getattr(m2.chemistry, '_gases', []))
            if gases_:
                tot_ = np.sum([np.asarray(g_.mixProfile, dtype=float)
                               for g_ in gases_], axis=0)
                if np.any(tot_ > 1.0):
                    out.bump('probes', 'invalid_by_definition_only')
                    return 'invalid', None
        if all(not math.isfinite(float(v)) for v in ym):
            # e.g. NaN temperatures: every native point, hence every bin and
            # chi-squared, is non-finite whatever the binning arithmetic
            return 'skip', 'model spectrum entirely non-finite'
        if any(v is None or not math.isfinite(v) for v in yb):
            # (a reference that merely overflows near 1e150 says nothing
            # about the callback's own arithmetic)
            return 'skip', 'non-finite reference model'
        return 'valid', refs.gaussian_loglike(yo, yb, so)

    class Plan(object):
        def on_run(self, skind, cbs, kwargs):
            if skind != kind:
                viol('protocol', 'wrong-sampler', '%s vs %s' % (skind, kind))
                raise samplers.SessionEnd()
            if cbs['ndim'] != ndim:
                viol('protocol', 'ndim', 'sampler told ndim=%r, %d parameters '
                     'are fitted' % (cbs['ndim'], ndim))
                raise samplers.SessionEnd()
            self.ran = True
            try:
                for step, op in enumerate(self.ops):
                    self.step(self.offset + step, op, cbs)
            except Stop:
                self.stopped = True
            raise samplers.SessionEnd()

        def call_prior(self, step, cbs, u):
            u = list(u[:ndim]) + [0.5] * max(0, ndim - len(u))
            for i_, sp_ in enumerate(specs):
                if sp_['kind'] in ('Gaussian', 'LogGaussian'):
                    # the inverse CDF is infinite at the ends of the cube
                    u[i_] = min(max(u[i_], 1e-12), 1 - 1e-12)
                elif u[i_] in (0.0, 1.0):
                    out.bump('probes', 'cube_face_exactly')
            try:
                if kind == 'nestle':
                    th = cbs['prior'](np.array(u, dtype=float))
                elif kind == 'multinest':
                    cube = samplers.ItemOnly(u + [0.0])
                    ret = cbs['prior'](cube, ndim, ndim + 1)
                    th = cube.values()[:ndim]
                else:
                    th = cbs['prior'](np.array(u, dtype=float))
                th = [float(x) for x in th]
            except Exception as e:
                viol('callback-raised', 'prior:%s:%s' % (kind,
                                                         type(e).__name__),
                     'prior callback raised %r' % (e,), step)
                raise Stop()
            out.bump('steps', 'prior_calls')
            if len(th) != ndim:
                viol('prior-mismatch', 'length', '%d values for %d parameters'
                     % (len(th), ndim), step)
                raise Stop()
            for i, (sp, ui, ti) in enumerate(zip(specs, u, th)):
                want = M.ref_prior_sample(sp, ui)
                tol = 1e-9 * max(1.0, abs(want))
                if not (abs(ti - want) <= tol):
                    viol('prior-mismatch', sp['kind'],
                         'parameter %d (%s): prior(%r) = %r, inverse CDF of '
                         'its prior gives %r' % (i, order[i], ui, ti, want),
                         step)
                    raise Stop()
            log.add('sampler', 'prior', [u, th])
            return th

        def call_like(self, step, cbs, th):
            fault = None
            if faulty is not None and faulty.armed:
                fault = faulty.armed
            try:
                if kind == 'nestle':
                    L = cbs['loglike'](np.array(th, dtype=float))
                elif kind == 'multinest':
                    cube = samplers.ItemOnly(list(th) + [0.0])
                    L = cbs['loglike'](cube, ndim, ndim + 1)
                else:
                    ret = cbs['loglike'](np.array(th, dtype=float))
                    # as many derived values as the wrapper announced to
                    # run_polychord (one dummy slot today)
                    if not (isinstance(ret, tuple) and len(ret) == 2 and
                            len(ret[1]) == int(cbs.get('nderived', 1))):
                        viol('protocol', 'polychord-return',
                             'loglike must return (logL, [%s derived]), got '
                             '%r' % (cbs.get('nderived', 1), ret), step)
                        raise Stop()
                    L = ret[0]
                L = float(L)
            except Stop:
                raise
            except Exception as e:
                viol('callback-raised', 'loglike:%s:%s'
                     % (kind, type(e).__name__),
                     'likelihood callback raised %r at theta=%s' % (e, th),
                     step)
                raise Stop()
            out.bump('steps', 'loglike_calls')
            for n, v in zip(order, th):
                written[n] = M.ref_to_linear(
                    M.ref_prior_is_log(fit_by_name[n]['prior']), v)
            fired = fault is not None and faulty.armed is None
            verdict, Lref = oracle(th)
            if fired:
                out.bump('faults', 'contribution_raised:' + fault)
            if verdict == 'skip':
                out.bump('probes', 'oracle_skip')
                pattern.append('s')
                if Lref == 'model spectrum entirely non-finite' and \
                        math.isfinite(L) \
                        and not fired:
                    # the binned model has a NaN/inf bin: so has chi-squared
                    viol('loglike-mismatch', kind + ':nonfinite-model',
                         'theta=%s: the model spectrum is not finite but the '
                         'callback returned %r' % (th, L), step)
                    raise Stop()
            elif verdict == 'invalid' or fired:
                if verdict == 'invalid':
                    out.bump('faults', 'invalid_vector')
                pattern.append('F' if fired else 'I')
                if math.isfinite(L):
                    viol('finite-on-invalid', 'fault' if fired else 'vector',
                         '%s: invalid atmosphere at theta=%s gave finite '
                         'log-likelihood %r' % (kind, th, L), step)
                    raise Stop()
                state['after_fault'] = True
            else:
                pattern.append('v')
                if state['after_fault']:
                    out.bump('probes', 'valid_right_after_invalid')
                    state['after_fault'] = False
                tol = 1e-10 * abs(Lref) + 1e-9
                if not math.isfinite(Lref) or abs(Lref) > 1e290:
                    # overflow (or nearly) in the reference itself, e.g. a
                    # negative mixing ratio from an unbounded prior: the
                    # callback must be non-finite or astronomically large too;
                    # which of the two depends on the order of summation
                    same = (not math.isfinite(L)) or abs(L) > 1e280
                    out.bump('probes', 'nonfinite_reference')
                else:
                    same = abs(L - Lref) <= tol
                if not same:
                    viol('loglike-mismatch', kind,
                         'theta=%s (%s): callback %r, Gaussian log-likelihood '
                         'of the binned model %r' % (th, order, L, Lref), step)
                    raise Stop()
            log.add('sampler', 'like', [th, L])
            # untouched parameters
            for (own, n), v in baseline.items():
                if n in fitted:
                    continue
                t = (model if own == 'm' else obs).fittingParameters[n]
                got = t[2]()
                if n in written:
                    # fitted by an earlier session: keeps what was last written
                    w = written[n]
                    if not abs(got - w) <= 1e-12 * abs(w):
                        viol('untouched-changed', n + ':formerly-fitted',
                             'parameter %s is no longer fitted but changed '
                             'from %r to %r' % (n, w, got), step)
                        raise Stop()
                elif got != v:
                    viol('untouched-changed', n, 'non-fitted parameter %s '
                         'changed from %r to %r' % (n, v, got), step)
                    raise Stop()

        def step(self, step, op, cbs):
            k = op[0]
            if k == 'prior':
                state['last'] = self.call_prior(step, cbs, op[1])
            elif k == 'like_u':
                th = self.call_prior(step, cbs, op[1])
                state['last'] = th
                state['stored'].append(th)
                self.call_like(step, cbs, th)
            elif k == 'like_last':
                if state['last'] is not None:
                    self.call_like(step, cbs, state['last'])
            elif k == 'like_old':
                if state['stored']:
                    th = state['stored'][op[1] % len(state['stored'])]
                    out.bump('probes', 'repeated_point')
                    self.call_like(step, cbs, th)
            elif k == 'arm_fault':
                if faulty is not None:
                    faulty.armed = op[1]
            else:
                raise ValueError(op)

    segments = [[[], None, 0, None, False]]
    for i, op in enumerate(ops):
        if op[0] == 'refit':
            segments[-1][1] = op[1]
            segments[-1][3] = op[2] if len(op) > 2 else None
            segments[-1][4] = bool(op[3]) if len(op) > 3 else False
            segments.append([[], None, i + 1, None, False])
        else:
            segments[-1][0].append(op)
    plan = Plan()
    plan.stopped = False
    samplers.set_plan(plan)
    samplers.use_nestle_double(True)
    try:
        for seg_ops, newfit, offset, newobs, newmodel in segments:
            plan.ops = seg_ops
            plan.offset = offset
            plan.ran = False
            try:
                opt.compile_params()
                opt.compute_fit()
                viol('protocol', 'no-sampler-call',
                     'compute_fit returned without calling the sampler')
            except samplers.SessionEnd:
                pass
            except Exception as e:
                import traceback
                viol('fit-raised', '%s:%s' % (kind, type(e).__name__),
                     'compute_fit raised %r\n%s'
                     % (e, traceback.format_exc()[-800:]))
            if out.violations or plan.stopped or newfit is None:
                break
            # re-configure the same optimizer through its public mutators
            try:
                if newobs is not None and not is_toy:
                    cfg['obs'] = newobs
                    cfg.pop('obs_override', None)
                    obs = S.build_obs(newobs)
                    opt.set_observed(obs)
                    out.bump('probes', 'observation_replaced')
                oldfit = fit
                if newmodel:
                    model, _o, faulty = _build(cfg, use_faulty)
                    opt.set_model(model)
                    for n in list(written):
                        if n in model.fittingParameters:
                            del written[n]      # a fresh object: configured
                    for n in list(model.fittingParameters):
                        opt.disable_fit(n)
                    oldfit = [f for f in fit
                              if f['name'] not in model.fittingParameters]
                    out.bump('probes', 'model_replaced')
                S.apply_refit(opt, oldfit, newfit)
            except Exception as e:
                viol('refit-raised', type(e).__name__,
                     're-configuring the optimizer raised %r' % (e,))
                break
            enter_segment(newfit)
            if any(f.get('factor') for f in newfit):
                out.bump('probes', 'factor_boundary_between_fits')
            state['last'] = None
            state['stored'] = []
            out.bump('probes', 'refit_session')
            log.add('user', 'refit', [order, specs])
    finally:
        samplers.use_nestle_double(False)
        samplers.set_plan(None)
        import taurex.log
        taurex.log.disableLogging()
    if any(M.ref_prior_is_log(s) != (fit_by_name[n]['mode'] == 'log')
           for s, n in zip(specs, order)):
        out.bump('probes', 'mixed_space_prior')
    if any(n in obs.fittingParameters for n in order):
        out.bump('probes', 'obs_param_fitted')
    # run-length pattern of valid/invalid/fault
    rle = []
    for ch in pattern:
        if rle and rle[-1][0] == ch:
            rle[-1][1] += 1
        else:
            rle.append([ch, 1])
    rl = ''.join('%s%d' % (a, min(b, 9)) for a, b in rle)
    out.signature = '%x' % H(kind, tuple(order),
                             tuple(s['kind'] for s in specs), rl)
    out.nontrivial = len(pattern) >= 2
    out.digest = log.digest()
    return out


def simplify(case):
    import copy
    cfg = case['config']
    if cfg.get('faulty'):
        c = copy.deepcopy(case)
        c['config']['faulty'] = False
        c['ops'] = [op for op in c['ops'] if op[0] != 'arm_fault']
        yield c
    if cfg.get('exact_fit') and not any(
            op[0] == 'like_u' and op[1] == cfg['exact_fit']
            for op in case['ops']):
        c = copy.deepcopy(case)
        c['config'].pop('exact_fit')
        yield c
    m = cfg['model']
    if m.get('kind') != 'toy':
        if len(m['contribs']) > 1 and not S.fit_needs_contribs(cfg['fit']):
            c = copy.deepcopy(case)
            c['config']['model']['contribs'] = ['Absorption']
            yield c
        if m['nlayers'] > 3:
            c = copy.deepcopy(case)
            c['config']['model']['nlayers'] = 3
            yield c
    if any(op[0] == 'refit' for op in case['ops']):
        # end the history at the first re-configuration / drop the first one
        i = [j for j, op in enumerate(case['ops']) if op[0] == 'refit'][0]
        c = copy.deepcopy(case)
        c['ops'] = c['ops'][:i]
        yield c
    elif len(cfg['fit']) > 1:
        for i in range(len(cfg['fit'])):
            c = copy.deepcopy(case)
            del c['config']['fit'][i]
            if c['config'].get('exact_fit'):
                c['config'].pop('exact_fit')
            yield c
